/-
Dates and times as text.

* `fmtDateTime df tf …` — `XDateTime.Format(env)`: the environment's date format, a space, its
  time format (`gocommon/dates.Format` with the layouts goflow supports, default locale).
* `fmtISO …` — `XDateTime.Render()` (`2006-01-02T15:04:05.000000Z07:00`).
* `parseDateTime df cy s` — `envs.DateTimeFromString(env, s, false)`: the two full ISO layouts,
  then `parseDate` (ISO date on the first ten bytes, else the environment's pattern through
  `dateFromFormats`), then `parseTime` on the remainder.

The three date patterns and the time pattern of `envs/dates.go` are written as values of a small
regular-expression type whose matcher is the leftmost-first (backtracking-order) semantics of
Go's `regexp`; the pattern texts themselves are regenerated from the source on every run
(`Gen/DatePatterns.lean`) and compared with the texts these values were written from.
-/
namespace GoflowModel.DateText

def isDigit (c : Char) : Bool := decide ('0' ≤ c) && decide (c ≤ '9')
def isWord (c : Char) : Bool :=
  isDigit c || (decide ('a' ≤ c) && decide (c ≤ 'z')) || (decide ('A' ≤ c) && decide (c ≤ 'Z')) || c == '_'
/-- `[-.\\/_ ]` -/
def isSep (c : Char) : Bool := c == '-' || c == '.' || c == '\\' || c == '/' || c == '_' || c == ' '

/-! ### a small regular-expression matcher -/

inductive Re where
  | cls (p : Char → Bool)
  | seq (a b : Re)
  | alt (a b : Re)
  | opt (a : Re)
  | star (p : Char → Bool)
  | grp (n : Nat) (a : Re)
  | wordB

structure St where
  prev : Option Char
  rest : List Char
  caps : List (Nat × List Char)

def wordOpt : Option Char → Bool
  | none => false
  | some c => isWord c

def atBoundary (prev : Option Char) (rest : List Char) : Bool := wordOpt prev != wordOpt rest.head?

/-- greedy `p*`, giving characters back one at a time -/
def starK {α : Type} (p : Char → Bool) (caps : List (Nat × List Char)) (k : St → Option α) :
    Option Char → List Char → Option α
  | prev, [] => k ⟨prev, [], caps⟩
  | prev, c :: r =>
    if p c then
      match starK p caps k (some c) r with
      | some x => some x
      | none => k ⟨prev, c :: r, caps⟩
    else k ⟨prev, c :: r, caps⟩

def Re.run {α : Type} : Re → St → (St → Option α) → Option α
  | .cls p, s, k =>
    match s.rest with
    | c :: r => if p c then k ⟨some c, r, s.caps⟩ else none
    | [] => none
  | .seq a b, s, k => a.run s (fun s' => b.run s' k)
  | .alt a b, s, k =>
    match a.run s k with
    | some x => some x
    | none => b.run s k
  | .opt a, s, k =>
    match a.run s k with
    | some x => some x
    | none => k s
  | .star p, s, k => starK p s.caps k s.prev s.rest
  | .grp n a, s, k =>
    a.run s (fun s' => k ⟨s'.prev, s'.rest, (n, s.rest.take (s.rest.length - s'.rest.length)) :: s'.caps⟩)
  | .wordB, s, k => if atBoundary s.prev s.rest then k s else none

def cap (caps : List (Nat × List Char)) (n : Nat) : List Char := (caps.lookup n).getD []

/-- `FindAllStringSubmatch`: successive non-overlapping leftmost matches (none of the patterns
here can match the empty string) -/
def findAll (re : Re) : Nat → Option Char → List Char → List (List (Nat × List Char) × List Char)
  | 0, _, _ => []
  | f + 1, prev, inp =>
    match re.run ⟨prev, inp, []⟩ (fun s => some s) with
    | some s =>
      (s.caps, s.rest) :: (if s.rest.length < inp.length then findAll re f s.prev s.rest else [])
    | none =>
      match inp with
      | [] => []
      | c :: r => findAll re f (some c) r

def d : Re := .cls isDigit
def d2 : Re := .seq d d
def d12 : Re := .seq d (.opt d)
def d4or2 : Re := .alt (.seq d2 d2) d2
def sep : Re := .cls isSep
def ch (c : Char) : Re := .cls (· == c)

/-- `\b([0-9]{1,2})[-.\\/_ ]([0-9]{1,2})[-.\\/_ ]([0-9]{4}|[0-9]{2})\b` -/
def patternDayMonthYear : Re :=
  .seq .wordB (.seq (.grp 1 d12) (.seq sep (.seq (.grp 2 d12) (.seq sep (.seq (.grp 3 d4or2) .wordB)))))
/-- `\b([0-9]{4}|[0-9]{2})[-.\\/_ ]([0-9]{1,2})[-.\\/_ ]([0-9]{1,2})\b` -/
def patternYearMonthDay : Re :=
  .seq .wordB (.seq (.grp 1 d4or2) (.seq sep (.seq (.grp 2 d12) (.seq sep (.seq (.grp 3 d12) .wordB)))))

/-- `\b(\d{1,2})(?:(?:\:)?(\d{2})(?:\:(\d{2})(?:\.(\d+))?)?)?\W*([aApP][mM])?\b` -/
def patternTime : Re :=
  .seq .wordB (.seq (.grp 1 d12)
    (.seq (.opt (.seq (.opt (ch ':')) (.seq (.grp 2 d2)
        (.opt (.seq (ch ':') (.seq (.grp 3 d2) (.opt (.seq (ch '.') (.grp 4 (.seq d (.star isDigit)))))))))))
      (.seq (.star (fun c => !isWord c))
        (.seq (.opt (.grp 5 (.seq (.cls fun c => c == 'a' || c == 'A' || c == 'p' || c == 'P')
                                  (.cls fun c => c == 'm' || c == 'M')))) .wordB))))

/-! ### numbers and calendar -/

def digitVal (c : Char) : Nat := c.toNat - 48
/-- `strconv.Atoi` on a short digit string (the empty string gives 0, as the ignored error does) -/
def atoi (l : List Char) : Nat := l.foldl (fun n c => n * 10 + digitVal c) 0

def dg (n : Nat) : Char := Char.ofNat (48 + n % 10)
def pad2 (n : Nat) : List Char := [dg (n / 10), dg n]
def pad4 (n : Nat) : List Char := [dg (n / 1000), dg (n / 100), dg (n / 10), dg n]
def natDigits (n : Nat) : List Char := (toString n).toList

def isLeap (y : Nat) : Bool := y % 4 == 0 && (y % 100 != 0 || y % 400 == 0)
def daysIn (y m : Nat) : Nat :=
  if m == 2 then (if isLeap y then 29 else 28)
  else if m == 4 || m == 6 || m == 9 || m == 11 then 30 else 31

structure Date where
  y : Nat
  m : Nat
  d : Nat
deriving Repr, DecidableEq

structure TimeOfDay where
  h : Nat
  mi : Nat
  s : Nat
  nanos : Nat
deriving Repr, DecidableEq

def Date.valid (x : Date) : Bool := 1 ≤ x.m && x.m ≤ 12 && 1 ≤ x.d && x.d ≤ daysIn x.y x.m

/-! ### formatting -/

inductive DF | ymd | mdy | dmy deriving Repr, DecidableEq
inductive TF | hm | hmAmPm | hms | hmsAmPm deriving Repr, DecidableEq

def fmtDate (df : DF) (x : Date) : List Char :=
  match df with
  | .ymd => pad4 x.y ++ '-' :: pad2 x.m ++ '-' :: pad2 x.d
  | .mdy => pad2 x.m ++ '-' :: pad2 x.d ++ '-' :: pad4 x.y
  | .dmy => pad2 x.d ++ '-' :: pad2 x.m ++ '-' :: pad4 x.y

def hour12 (h : Nat) : Nat := if h % 12 = 0 then 12 else h % 12
def ampm (h : Nat) : List Char := if h ≥ 12 then ['p', 'm'] else ['a', 'm']
/-- Go's `3`: the twelve-hour clock without padding -/
def hour12Digits (h : Nat) : List Char := if hour12 h ≥ 10 then [dg (hour12 h / 10), dg (hour12 h)] else [dg (hour12 h)]

def fmtTime (tf : TF) (t : TimeOfDay) : List Char :=
  match tf with
  | .hm => pad2 t.h ++ ':' :: pad2 t.mi
  | .hmAmPm => hour12Digits t.h ++ ':' :: pad2 t.mi ++ ' ' :: ampm t.h
  | .hms => pad2 t.h ++ ':' :: pad2 t.mi ++ ':' :: pad2 t.s
  | .hmsAmPm => hour12Digits t.h ++ ':' :: pad2 t.mi ++ ':' :: pad2 t.s ++ ' ' :: ampm t.h

def fmtDateTime (df : DF) (tf : TF) (x : Date) (t : TimeOfDay) : List Char :=
  fmtDate df x ++ ' ' :: fmtTime tf t

/-! ### parsing -/

/-- `dateFromFormats`: the first match that is a believable date, and the text after it -/
def dateFromMatches (cy : Nat) (dI mI yI : Nat) : List (List (Nat × List Char) × List Char) → Option (Date × List Char)
  | [] => none
  | (caps, rest) :: more =>
    let y0 := atoi (cap caps yI)
    let year := if (cap caps yI).length = 2 then (if y0 > cy % 1000 then y0 + 1900 else y0 + 2000) else y0
    let month := atoi (cap caps mI)
    let day := atoi (cap caps dI)
    if day = 0 ∨ day > 31 ∨ month = 0 ∨ month > 12 ∨ day > daysIn year month then
      dateFromMatches cy dI mI yI more
    else some (⟨year, month, day⟩, rest)

def takeDigits (n : Nat) (s : List Char) : Option (Nat × List Char) :=
  if s.length ≥ n ∧ (s.take n).all isDigit then some (atoi (s.take n), s.drop n) else none

/-- `getnum(value, false)`: two digits when there are two, else one (Go's `15` hour) -/
def takeNum12 (s : List Char) : Option (Nat × List Char) :=
  match s with
  | a :: b :: r => if isDigit a then (if isDigit b then some (atoi [a, b], r) else some (atoi [a], b :: r)) else none
  | [a] => if isDigit a then some (atoi [a], []) else none
  | [] => none

def expect (c : Char) (s : List Char) : Option (List Char) :=
  match s with
  | x :: r => if x = c then some r else none
  | [] => none

/-- `time.Parse("2006-01-02", …)` prefix: the date and what follows it -/
def isoDatePrefix (s : List Char) : Option (Date × List Char) := do
  let (y, s) ← takeDigits 4 s
  let s ← expect '-' s
  let (m, s) ← takeDigits 2 s
  let s ← expect '-' s
  let (dd, s) ← takeDigits 2 s
  if (Date.valid ⟨y, m, dd⟩) then some (⟨y, m, dd⟩, s) else none

def trimSet (c : Char) : Bool := c == ' ' || c == '\n' || c == '\r' || c == '\t'
def trim (s : List Char) : List Char := ((s.dropWhile trimSet).reverse.dropWhile trimSet).reverse

/-- `parseDate`.  The ISO attempt looks at the first ten *bytes*; a successful parse means they
are ten ASCII characters, and a string whose first ten bytes are not ten characters cannot parse. -/
def parseDate (df : DF) (cy : Nat) (s0 : List Char) : Option (Date × List Char) :=
  let s := trim s0
  match (if (s.take 10).all (·.toNat < 128) then isoDatePrefix (s.take 10) else none) with
  | some (dt, []) => some (dt, s.drop 10)
  | _ =>
    match df with
    | .ymd => dateFromMatches cy 3 2 1 (findAll patternYearMonthDay (s.length + 1) none s)
    | .dmy => dateFromMatches cy 1 2 3 (findAll patternDayMonthYear (s.length + 1) none s)
    | .mdy => dateFromMatches cy 2 1 3 (findAll patternDayMonthYear (s.length + 1) none s)

def lower (c : Char) : Char := if 'A' ≤ c ∧ c ≤ 'Z' then Char.ofNat (c.toNat + 32) else c

/-- the AM/PM marker applied to the hour that was read -/
def hourAmPm (h0 : Nat) (ap : List Char) : Nat :=
  if h0 < 12 ∧ ap = ['p', 'm'] then h0 + 12 else if h0 = 12 ∧ ap = ['a', 'm'] then 0 else h0

/-- one match of the time pattern: hour, minute, second, fraction digits, lower-cased marker -/
def timeOfFields (h0 mi s : Nat) (frac ap : List Char) : Option TimeOfDay :=
  let h1 := hourAmPm h0 ap
  let ns := frac.take 9
  let nanos := atoi ns * 10 ^ (9 - ns.length)
  let h2 := if h1 = 24 ∧ mi = 0 ∧ s = 0 ∧ nanos = 0 then 0 else h1
  if h2 > 24 ∨ mi > 60 ∨ s > 60 then none else some ⟨h2, mi, s, nanos⟩

def timeFromMatches : List (List (Nat × List Char) × List Char) → Option TimeOfDay
  | [] => none
  | (caps, _) :: more =>
    match timeOfFields (atoi (cap caps 1)) (atoi (cap caps 2)) (atoi (cap caps 3)) (cap caps 4) ((cap caps 5).map lower) with
    | some t => some t
    | none => timeFromMatches more

def parseTime (s : List Char) : Option TimeOfDay :=
  timeFromMatches (findAll patternTime (s.length + 1) none s)

/-- the full ISO layouts `2006-01-02T15:04:05Z07:00` and `2006-01-02T15:04Z07:00`
(`time.Parse` accepts a fraction after the seconds whether or not the layout has one);
result: date, time of day, offset in minutes east of UTC (`none` offset = `Z`) -/
def isoZone (s : List Char) : Option Int :=
  match s with
  | ['Z'] => some 0
  | sg :: r =>
    if sg = '+' ∨ sg = '-' then
      match takeDigits 2 r with
      | some (hh, r1) =>
        match expect ':' r1 with
        | some r2 =>
          match takeDigits 2 r2 with
          | some (mm, []) =>
            if hh > 24 ∨ mm > 60 then none
            else some (if sg = '-' then -((hh * 60 + mm : Nat) : Int) else ((hh * 60 + mm : Nat) : Int))
          | _ => none
        | none => none
      | none => none
    else none
  | [] => none

def isoFull (withSeconds : Bool) (s : List Char) : Option (Date × TimeOfDay × Int) := do
  let (dt, s) ← isoDatePrefixLoose s
  let s ← expect 'T' s
  let (h, s) ← takeNum12 s
  let s ← expect ':' s
  let (mi, s) ← takeDigits 2 s
  if h ≥ 24 ∨ mi ≥ 60 then none
  if withSeconds then
    let s ← expect ':' s
    let (sec, s) ← takeDigits 2 s
    if sec ≥ 60 then none
    -- optional fraction
    let (nanos, s) :=
      match s with
      | p :: c :: r =>
        if (p = '.' ∨ p = ',') ∧ isDigit c then
          let ds := (c :: r).takeWhile isDigit
          (atoi (ds.take 9) * 10 ^ (9 - (ds.take 9).length), (c :: r).dropWhile isDigit)
        else (0, s)
      | _ => (0, s)
    let off ← isoZone s
    if dt.valid then some (dt, ⟨h, mi, sec, nanos⟩, off) else none
  else
    let off ← isoZone s
    if dt.valid then some (dt, ⟨h, mi, 0, 0⟩, off) else none
where
  /-- month and day ranges are checked as they are read; the day against the month at the end -/
  isoDatePrefixLoose (s : List Char) : Option (Date × List Char) := do
    let (y, s) ← takeDigits 4 s
    let s ← expect '-' s
    let (m, s) ← takeDigits 2 s
    let s ← expect '-' s
    let (dd, s) ← takeDigits 2 s
    if m = 0 ∨ m > 12 ∨ dd = 0 ∨ dd > 31 then none else some (⟨y, m, dd⟩, s)

inductive Parsed where
  | iso (d : Date) (t : TimeOfDay) (offMin : Int)   -- an instant with its own offset
  | local (d : Date) (t : TimeOfDay)                -- fields in the environment's timezone
deriving Repr, DecidableEq

/-- `envs.DateTimeFromString(env, s, false)` -/
def parseDateTime (df : DF) (cy : Nat) (s0 : List Char) : Option Parsed :=
  let s := trim s0
  match isoFull true s with
  | some (dt, t, o) => some (.iso dt t o)
  | none =>
    match isoFull false s with
    | some (dt, t, o) => some (.iso dt t o)
    | none =>
      match parseDate df cy s with
      | none => none
      | some (dt, rem) =>
        match parseTime rem with
        | some t => some (.local dt t)
        | none => some (.local dt ⟨0, 0, 0, 0⟩)

/-- Go's `Z07:00` -/
def zoneText (offMin : Int) : List Char :=
  if offMin = 0 then ['Z']
  else (if offMin < 0 then '-' else '+') :: pad2 (offMin.natAbs / 60) ++ ':' :: pad2 (offMin.natAbs % 60)

/-- `dates.FormatISO`: microseconds, `Z` for a zero offset -/
def fmtISO (x : Date) (t : TimeOfDay) (offMin : Int) : List Char :=
  let micros := t.nanos / 1000
  pad4 x.y ++ '-' :: pad2 x.m ++ '-' :: pad2 x.d ++ 'T' :: pad2 t.h ++ ':' :: pad2 t.mi ++ ':' :: pad2 t.s ++
    '.' :: [dg (micros / 100000), dg (micros / 10000), dg (micros / 1000), dg (micros / 100), dg (micros / 10), dg micros] ++
    zoneText offMin

end GoflowModel.DateText
