/-
Decimal numbers as `shopspring/decimal` holds them — a sign, the decimal digits of the
coefficient (as `big.Int.String()` prints them) and an exponent — with
`Decimal.String()` (what `XNumber.Render` returns: no exponent notation, trailing fractional
zeros trimmed) and the parsing of `types.newXNumberFromString` (`decimalRegexp` followed by
`decimal.NewFromString`).

Numeric equality is taken syntactically: two numbers are equal iff they have the same normal form
(no leading zeros, no trailing zeros in the coefficient, zero is `+ [] 0`).  That this is
`decimal.Equal` is validated by the correspondence run, not proved (it is arithmetic on
`big.Int`).
-/
namespace GoflowModel.Dec

structure Dec where
  neg : Bool
  digits : List Char
  exp : Int
deriving Repr, DecidableEq, Inhabited

def isDigit (c : Char) : Bool := '0' ≤ c ∧ c ≤ '9'

def trimTrailingZeros (l : List Char) : List Char := (l.reverse.dropWhile (· = '0')).reverse
def trimLeadingZeros (l : List Char) : List Char := l.dropWhile (· = '0')
def trailingZeros (l : List Char) : Nat := (l.reverse.takeWhile (· = '0')).length

/-- normal form -/
def norm (d : Dec) : Dec :=
  let ds := trimLeadingZeros d.digits
  if ds = [] then ⟨false, [], 0⟩
  else ⟨d.neg, trimTrailingZeros ds, d.exp + trailingZeros ds⟩

/-- numeric equality, syntactically -/
def numEq (a b : Dec) : Bool := norm a == norm b

/-- `Decimal.String()`; `digits` is never empty in the implementation (`"0"` for zero) -/
def render (d : Dec) : List Char :=
  let body : List Char :=
    if d.exp ≥ 0 then
      -- `d.rescale(0).value.String()`
      if trimLeadingZeros d.digits = [] then ['0'] else d.digits ++ List.replicate d.exp.toNat '0'
    else
      let k := (-d.exp).toNat
      let intPart := if d.digits.length > k then d.digits.take (d.digits.length - k) else ['0']
      let frac := if d.digits.length > k then d.digits.drop (d.digits.length - k)
                  else List.replicate (k - d.digits.length) '0' ++ d.digits
      let frac := trimTrailingZeros frac
      if frac = [] then intPart else intPart ++ '.' :: frac
  if d.neg ∧ trimLeadingZeros d.digits ≠ [] then '-' :: body else body

/-- `decimalRegexp` + `decimal.NewFromString`: `-?(digits | digits.digits | .digits)` -/
def parseBody (s : List Char) : Option (List Char × Int) :=
  let i := s.takeWhile isDigit
  match s.dropWhile isDigit with
  | [] => if i = [] then none else some (i, 0)
  | '.' :: f => if f ≠ [] ∧ f.all isDigit then some (i ++ f, -(f.length : Int)) else none
  | _ => none

def parse (s : List Char) : Option Dec :=
  match s with
  | '-' :: r => (parseBody r).map fun p => ⟨true, p.1, p.2⟩
  | _ => (parseBody s).map fun p => ⟨false, p.1, p.2⟩

/-- the digit strings `big.Int.String()` produces: non-empty, digits only, no leading zero
unless the number is zero (`"0"`) -/
def WellFormed (d : Dec) : Prop :=
  d.digits ≠ [] ∧ (∀ c ∈ d.digits, isDigit c = true) ∧ (d.digits.head? = some '0' → d.digits = ['0']) ∧
  (d.digits = ['0'] → d.neg = false)

end GoflowModel.Dec
