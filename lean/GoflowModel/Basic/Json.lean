import GoflowModel.Basic.Dec
/-!
JSON documents through `parse_json` and `json()` (`excellent/types/json.go`, `XObject.MarshalJSON`,
`XArray.MarshalJSON`, `XNumber.MarshalJSON`): an object becomes a map (the last of several members
of one name wins), the member named `__default__` is taken for the object's default and is not
written back, members are written in the order of their names; a number is read as a decimal and
written as that decimal renders; everything else is kept.
-/
namespace GoflowModel.Json
open GoflowModel.Dec

mutual
  inductive J where
    | null
    | bool (b : Bool)
    | num (d : Dec)
    | str (s : List Char)
    | arr (l : JL)
    | obj (l : JO)
  inductive JL where
    | nil
    | cons (x : J) (rest : JL)
  inductive JO where
    | nil
    | cons (k : List Char) (v : J) (rest : JO)
end

def dflt : List Char := "__default__".toList

/-- the coefficient as `big.Int` holds it: no leading zeros, `0` for zero -/
def canonDec (d : Dec) : Dec :=
  { d with digits := if trimLeadingZeros d.digits = [] then ['0'] else trimLeadingZeros d.digits }

/-- a number written by `json()` and read again -/
def reparse (d : Dec) : Dec := (Dec.parse (Dec.render (canonDec d))).getD d

/-- every member named `k` removed -/
def eraseAll (k : List Char) : JO → JO
  | .nil => .nil
  | .cons k' v rest => if k' = k then eraseAll k rest else .cons k' v (eraseAll k rest)

/-- the member put where its name belongs, older members of that name dropped -/
def ins (k : List Char) (v : J) : JO → JO
  | .nil => .cons k v .nil
  | .cons k' v' rest =>
    if k' = k then ins k v rest
    else if k < k' then .cons k v (.cons k' v' (eraseAll k rest))
    else .cons k' v' (ins k v rest)

mutual
  /-- `json(parse_json(doc))` -/
  def rt : J → J
    | .null => .null
    | .bool b => .bool b
    | .num d => .num (reparse d)
    | .str s => .str s
    | .arr l => .arr (rtL l)
    | .obj l => .obj (rtO .nil l)
  def rtL : JL → JL
    | .nil => .nil
    | .cons x rest => .cons (rt x) (rtL rest)
  /-- members in the order written into the map built so far -/
  def rtO (acc : JO) : JO → JO
    | .nil => acc
    | .cons k v rest => rtO (if k = dflt then acc else ins k (rt v) acc) rest
end

/-! ### what a document denotes -/

mutual
  inductive X where
    | null
    | bool (b : Bool)
    | num (d : Dec)
    | str (s : List Char)
    | arr (l : XL)
    | obj (f : List Char → Option X)
  inductive XL where
    | nil
    | cons (x : X) (rest : XL)
end

mutual
  /-- numbers by value, objects as maps from names (the last member of a name counts) -/
  def sem : J → X
    | .null => .null
    | .bool b => .bool b
    | .num d => .num (Dec.norm d)
    | .str s => .str s
    | .arr l => .arr (semL l)
    | .obj l => .obj (semO l)
  def semL : JL → XL
    | .nil => .nil
    | .cons x rest => .cons (sem x) (semL rest)
  def semO : JO → List Char → Option X
    | .nil => fun _ => none
    | .cons k v rest => fun q =>
      match semO rest q with
      | some x => some x
      | none => if k = q then some (sem v) else none
end

mutual
  /-- no object has a member named `__default__` -/
  def NoDefault : J → Prop
    | .arr l => NoDefaultL l
    | .obj l => NoDefaultO l
    | _ => True
  def NoDefaultL : JL → Prop
    | .nil => True
    | .cons x rest => NoDefault x ∧ NoDefaultL rest
  def NoDefaultO : JO → Prop
    | .nil => True
    | .cons k v rest => k ≠ dflt ∧ NoDefault v ∧ NoDefaultO rest
end

/-- digits only, at least one -/
def NumOK (d : Dec) : Prop := d.digits ≠ [] ∧ ∀ c ∈ d.digits, isDigit c = true

mutual
  def NumsOK : J → Prop
    | .num d => NumOK d
    | .arr l => NumsOKL l
    | .obj l => NumsOKO l
    | _ => True
  def NumsOKL : JL → Prop
    | .nil => True
    | .cons x rest => NumsOK x ∧ NumsOKL rest
  def NumsOKO : JO → Prop
    | .nil => True
    | .cons _ v rest => NumsOK v ∧ NumsOKO rest
end

end GoflowModel.Json
