/-
Model of Go's `strconv.Quote` / `strconv.Unquote` for double-quoted strings over valid UTF-8
(strings are `List Char`, i.e. sequences of Unicode scalar values).

`strconv.IsPrint` is a large Unicode table; it is a parameter `pr : Char → Bool` of `quote`.
Theorems hold for every `pr` that (like the real table) never calls a control character
printable; the correspondence check samples the real table.
-/
namespace GoflowModel.Quote

def hexDigit (n : Nat) : Char :=
  if n < 10 then Char.ofNat (48 + n) else Char.ofNat (87 + n)

/-- value of a hex digit (both cases, as `strconv.unhex`) -/
def unhex (c : Char) : Option Nat :=
  if '0' ≤ c ∧ c ≤ '9' then some (c.toNat - 48)
  else if 'a' ≤ c ∧ c ≤ 'f' then some (c.toNat - 87)
  else if 'A' ≤ c ∧ c ≤ 'F' then some (c.toNat - 55)
  else none

def hex2 (n : Nat) : List Char := [hexDigit (n / 16 % 16), hexDigit (n % 16)]
def hex4 (n : Nat) : List Char := hex2 (n / 256) ++ hex2 (n % 256)
def hex8 (n : Nat) : List Char := hex4 (n / 65536) ++ hex4 (n % 65536)

/-- `strconv.appendEscapedRune` with `quote = '"'`, `ASCIIonly = graphicOnly = false`. -/
def escRune (pr : Char → Bool) (c : Char) : List Char :=
  if c = '"' ∨ c = '\\' then ['\\', c]
  else if pr c then [c]
  else if c = '\x07' then ['\\', 'a']
  else if c = '\x08' then ['\\', 'b']
  else if c = '\x0c' then ['\\', 'f']
  else if c = '\n' then ['\\', 'n']
  else if c = '\r' then ['\\', 'r']
  else if c = '\t' then ['\\', 't']
  else if c = '\x0b' then ['\\', 'v']
  else if c.toNat < 0x20 ∨ c.toNat = 0x7f then '\\' :: 'x' :: hex2 c.toNat
  else if c.toNat < 0x10000 then '\\' :: 'u' :: hex4 c.toNat
  else '\\' :: 'U' :: hex8 c.toNat

def escBody (pr : Char → Bool) (s : List Char) : List Char := s.flatMap (escRune pr)

/-- `strconv.Quote` -/
def quote (pr : Char → Bool) (s : List Char) : List Char := '"' :: (escBody pr s ++ ['"'])

/-- The alternative literal form used for the existential reading of C12/C14: as `quote`, but a
backslash is written `\` so that no backslash character ever precedes a quote. -/
def escRuneSafe (pr : Char → Bool) (c : Char) : List Char :=
  if c = '\\' then ['\\', 'u', '0', '0', '5', 'c'] else escRune pr c

def escBodySafe (pr : Char → Bool) (s : List Char) : List Char := s.flatMap (escRuneSafe pr)
def quoteSafe (pr : Char → Bool) (s : List Char) : List Char := '"' :: (escBodySafe pr s ++ ['"'])

def parseHex : List Char → Option Nat
  | [] => some 0
  | c :: cs => do
    let d ← unhex c
    let r ← parseHex cs
    pure (d * 16 ^ cs.length + r)

def isOct (c : Char) : Bool := '0' ≤ c ∧ c ≤ '7'

/-- outcome of unquoting: a value, a syntax error, or a string whose value is not valid UTF-8
(byte escapes ≥ 0x80), which this model does not represent. -/
inductive UnqResult where
  | ok (s : List Char)
  | syntaxErr
  | bytes
deriving Repr, DecidableEq

def UnqResult.cons (c : Char) : UnqResult → UnqResult
  | .ok s => .ok (c :: s)
  | r => r

def validRune (n : Nat) : Bool := n < 0xD800 ∨ (0xDFFF < n ∧ n ≤ 0x10FFFF)

/-- the loop of `strconv.unquote` after the opening quote (`UnquoteChar` inlined) -/
def unqGo : List Char → UnqResult
  | [] => .syntaxErr
  | ['"'] => .ok []
  | '"' :: _ => .syntaxErr
  | '\n' :: _ => .syntaxErr
  | '\\' :: 'a' :: r => (unqGo r).cons '\x07'
  | '\\' :: 'b' :: r => (unqGo r).cons '\x08'
  | '\\' :: 'f' :: r => (unqGo r).cons '\x0c'
  | '\\' :: 'n' :: r => (unqGo r).cons '\n'
  | '\\' :: 'r' :: r => (unqGo r).cons '\r'
  | '\\' :: 't' :: r => (unqGo r).cons '\t'
  | '\\' :: 'v' :: r => (unqGo r).cons '\x0b'
  | '\\' :: '\\' :: r => (unqGo r).cons '\\'
  | '\\' :: '"' :: r => (unqGo r).cons '"'
  | '\\' :: 'x' :: a :: b :: r =>
    match parseHex [a, b] with
    | none => .syntaxErr
    | some n => if n < 0x80 then (unqGo r).cons (Char.ofNat n) else
        match unqGo r with | .syntaxErr => .syntaxErr | _ => .bytes
  | '\\' :: 'u' :: a :: b :: c :: d :: r =>
    match parseHex [a, b, c, d] with
    | none => .syntaxErr
    | some n => if validRune n then (unqGo r).cons (Char.ofNat n) else .syntaxErr
  | '\\' :: 'U' :: a :: b :: c :: d :: e :: f :: g :: h :: r =>
    match parseHex [a, b, c, d, e, f, g, h] with
    | none => .syntaxErr
    | some n => if validRune n then (unqGo r).cons (Char.ofNat n) else .syntaxErr
  | '\\' :: a :: b :: c :: r =>
    if isOct a ∧ isOct b ∧ isOct c then
      let n := (a.toNat - 48) * 64 + (b.toNat - 48) * 8 + (c.toNat - 48)
      if n > 255 then .syntaxErr
      else if n < 0x80 then (unqGo r).cons (Char.ofNat n) else
        match unqGo r with | .syntaxErr => .syntaxErr | _ => .bytes
    else .syntaxErr
  | '\\' :: _ => .syntaxErr
  | c :: r => (unqGo r).cons c

/-- `strconv.Unquote` restricted to double-quoted input -/
def unquote : List Char → UnqResult
  | '"' :: r => unqGo r
  | _ => .syntaxErr

/-- `excellent.visitor.VisitTextLiteral` / `contactql` string literal: unquote, and when that
fails just strip the surrounding quotes. `none` = outside the model (byte escapes). -/
def literalValue (tok : List Char) : Option (List Char) :=
  match unquote tok with
  | .ok s => some s
  | .syntaxErr => some ((tok.drop 1).dropLast)
  | .bytes => none

end GoflowModel.Quote
