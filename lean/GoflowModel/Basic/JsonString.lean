import GoflowModel.Basic.Quote
/-
Model of JSON string literals as goflow writes and reads them (`jsonx.Marshal`: Go's
`encoding/json` string encoder with HTML escaping off; `encoding/json`'s string decoder) over
valid UTF-8 (strings are `List Char`, sequences of Unicode scalar values).

Encoder: `"` and `\` get a backslash; the control characters with short forms (`\b \f \n \r \t`)
use them; every other character below U+0020 and the two line separators U+2028 / U+2029 are
written `\uXXXX` (lower-case hex); everything else is written as it is.
Decoder: the escapes of RFC 8259 (`\" \\ \/ \b \f \n \r \t \uXXXX`, a high surrogate followed
by a low one is one character, a lone surrogate is U+FFFD); a raw control character, a raw quote
inside the literal or an unknown escape is a syntax error.
-/
namespace GoflowModel.JsonString
open GoflowModel.Quote

def escRune (c : Char) : List Char :=
  if c = '"' ∨ c = '\\' then ['\\', c]
  else if c = '\x08' then ['\\', 'b']
  else if c = '\x0c' then ['\\', 'f']
  else if c = '\n' then ['\\', 'n']
  else if c = '\r' then ['\\', 'r']
  else if c = '\t' then ['\\', 't']
  else if c.toNat < 0x20 ∨ c.toNat = 0x2028 ∨ c.toNat = 0x2029 then '\\' :: 'u' :: hex4 c.toNat
  else [c]

def escBody (s : List Char) : List Char := s.flatMap escRune

/-- the literal `json.Marshal` writes for a string -/
def encode (s : List Char) : List Char := '"' :: (escBody s ++ ['"'])

def isHighSurrogate (n : Nat) : Bool := 0xD800 ≤ n ∧ n < 0xDC00
def isLowSurrogate (n : Nat) : Bool := 0xDC00 ≤ n ∧ n < 0xE000

def consO (c : Char) : Option (List Char) → Option (List Char)
  | some s => some (c :: s)
  | none => none

def flush (hi : Option Nat) (x : Option (List Char)) : Option (List Char) :=
  match hi with
  | some _ => consO (Char.ofNat 0xFFFD) x
  | none => x

/-- the decoder's loop after the opening quote; `hi` is a high surrogate read just before and not yet
paired; `none` = syntax error -/
def decGo : Option Nat → List Char → Option (List Char)
  | _, [] => none
  | hi, ['"'] => flush hi (some [])
  | _, '"' :: _ => none
  | hi, '\\' :: '"' :: r => flush hi (consO '"' (decGo none r))
  | hi, '\\' :: '\\' :: r => flush hi (consO '\\' (decGo none r))
  | hi, '\\' :: '/' :: r => flush hi (consO '/' (decGo none r))
  | hi, '\\' :: 'b' :: r => flush hi (consO '\x08' (decGo none r))
  | hi, '\\' :: 'f' :: r => flush hi (consO '\x0c' (decGo none r))
  | hi, '\\' :: 'n' :: r => flush hi (consO '\n' (decGo none r))
  | hi, '\\' :: 'r' :: r => flush hi (consO '\r' (decGo none r))
  | hi, '\\' :: 't' :: r => flush hi (consO '\t' (decGo none r))
  | hi, '\\' :: 'u' :: a :: b :: c :: d :: r =>
    match parseHex [a, b, c, d] with
    | none => none
    | some n =>
      match hi with
      | some h =>
        if isLowSurrogate n then consO (Char.ofNat (0x10000 + (h - 0xD800) * 0x400 + (n - 0xDC00))) (decGo none r)
        else if isHighSurrogate n then consO (Char.ofNat 0xFFFD) (decGo (some n) r)
        else consO (Char.ofNat 0xFFFD) (consO (Char.ofNat n) (decGo none r))
      | none =>
        if isHighSurrogate n then decGo (some n) r
        else if isLowSurrogate n then consO (Char.ofNat 0xFFFD) (decGo none r)
        else consO (Char.ofNat n) (decGo none r)
  | _, '\\' :: _ => none
  | hi, c :: r => if c.toNat < 0x20 then none else flush hi (consO c (decGo none r))

/-- `encoding/json`: the value of a string literal; `none` = not a valid string literal -/
def decodeStd : List Char → Option (List Char)
  | '"' :: r => decGo none r
  | _ => none

/-- `combineUTF16Surrogates` then `utf8.EncodeRune` (an invalid code point is written as U+FFFD) -/
def combineJP (n m : Nat) : Char :=
  let v := 0x10000 + (n - 0xD800) * 0x400 + (m - 0xDC00)
  if validRune v then Char.ofNat v else Char.ofNat 0xFFFD

/-- `jsonparser.ParseString` (buger/jsonparser `Unescape`) on the body of a literal known to be valid
JSON: a `\uXXXX` in the surrogate range D800–DFFF — high **or low** — must be followed at once by
another `\uYYYY` with `YYYY ≥ DC00`, and the two are combined; otherwise the string is refused
(`none`) and the caller falls back to `encoding/json`.  `hi` is such a first half. -/
def decJP : Option Nat → List Char → Option (List Char)
  | _, [] => none
  | none, ['"'] => some []
  | _, '"' :: _ => none
  | none, '\\' :: '"' :: r => consO '"' (decJP none r)
  | none, '\\' :: '\\' :: r => consO '\\' (decJP none r)
  | none, '\\' :: '/' :: r => consO '/' (decJP none r)
  | none, '\\' :: 'b' :: r => consO '\x08' (decJP none r)
  | none, '\\' :: 'f' :: r => consO '\x0c' (decJP none r)
  | none, '\\' :: 'n' :: r => consO '\n' (decJP none r)
  | none, '\\' :: 'r' :: r => consO '\r' (decJP none r)
  | none, '\\' :: 't' :: r => consO '\t' (decJP none r)
  | hi, '\\' :: 'u' :: a :: b :: c :: d :: r =>
    match parseHex [a, b, c, d] with
    | none => none
    | some n =>
      match hi with
      | some h => if n < 0xDC00 then none else consO (combineJP h n) (decJP none r)
      | none => if 0xD800 ≤ n ∧ n ≤ 0xDFFF then decJP (some n) r else consO (Char.ofNat n) (decJP none r)
  | _, '\\' :: _ => none
  | none, c :: r => consO c (decJP none r)
  | some _, _ :: _ => none

/-- `types.JSONToXValue` on a string literal: it must be valid JSON (`json.Valid`); then
`jsonparser.ParseString`, and where that refuses, `encoding/json` -/
def decode (lit : List Char) : Option (List Char) :=
  match decodeStd lit with
  | none => none
  | some std =>
    match lit with
    | '"' :: r => some ((decJP none r).getD std)
    | _ => none

end GoflowModel.JsonString
