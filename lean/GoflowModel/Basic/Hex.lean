/-
Line-protocol helpers: strings travel as lowercase hex of their UTF-8 bytes, so that the
protocol itself has no quoting ambiguities.
-/
namespace GoflowModel.Hex

def hexDigit (n : Nat) : Char :=
  if n < 10 then Char.ofNat (48 + n) else Char.ofNat (87 + n)

def digitVal (c : Char) : Option Nat :=
  if '0' ≤ c ∧ c ≤ '9' then some (c.toNat - 48)
  else if 'a' ≤ c ∧ c ≤ 'f' then some (c.toNat - 87)
  else none

def encodeBytes (bs : List UInt8) : String :=
  String.ofList (bs.flatMap fun b => [hexDigit (b.toNat / 16), hexDigit (b.toNat % 16)])

def encode (s : String) : String := encodeBytes s.toUTF8.toList

def decodeBytes : List Char → Option (List UInt8)
  | [] => some []
  | [_] => none
  | a :: b :: rest => do
    let x ← digitVal a
    let y ← digitVal b
    let r ← decodeBytes rest
    pure (UInt8.ofNat (x * 16 + y) :: r)

/-- `-` is the empty string (a bare empty token would vanish when splitting on spaces). -/
def decode (s : String) : Option String :=
  if s == "-" then some "" else
  match decodeBytes s.toList with
  | none => none
  | some bs => String.fromUTF8? (ByteArray.mk bs.toArray)

def enc (s : String) : String := if s.isEmpty then "-" else encode s

end GoflowModel.Hex
