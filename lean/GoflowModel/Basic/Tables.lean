import GoflowModel.Gen.Unicode
/-
Executable Unicode classification for the driver, from the regenerated range tables.
Theorems never depend on these: they take the classification as a parameter.
-/
namespace GoflowModel.Tables

/-- binary search in a sorted array of disjoint closed ranges -/
def inRanges (tbl : Array (Nat × Nat)) (n : Nat) : Bool :=
  let rec go (lo hi fuel : Nat) : Bool :=
    match fuel with
    | 0 => false
    | fuel + 1 =>
      if lo ≥ hi then false
      else
        let mid := (lo + hi) / 2
        let r := tbl[mid]!
        if n < r.1 then go lo mid fuel
        else if n > r.2 then go (mid + 1) hi fuel
        else true
  go 0 tbl.size 64

def isNameChar (c : Char) : Bool := c = '_' || inRanges Gen.Unicode.letterOrNumber c.toNat
def isPrint (c : Char) : Bool := inRanges Gen.Unicode.printable c.toNat
def isLetter (c : Char) : Bool := inRanges Gen.Unicode.letter c.toNat
def isDigit (c : Char) : Bool := inRanges Gen.Unicode.digit c.toNat

/-- ASCII-only lower-casing; the harness keeps the two non-ASCII runes whose Go lower case is
ASCII (U+0130, U+212A) out of positions where that matters. -/
def asciiLower (s : List Char) : List Char :=
  s.map fun c => if 'A' ≤ c ∧ c ≤ 'Z' then Char.ofNat (c.toNat + 32) else c

end GoflowModel.Tables
