import GoflowModel.Excellent.LexText
/-
The ContactQL lexer (`antlr/ContactQL.g4`) as a longest-match tokenizer with ANTLR's
tie-break (the rule listed first wins).  `UnicodeLetter` / `UnicodeDigit` (LexUnicode.g4) are
parameters.
-/
namespace GoflowModel.ContactQL

inductive TokKind where
  | lparen | rparen | and | or | comparator | string | property | text | error
deriving Repr, DecidableEq, Inhabited

structure Tok where
  kind : TokKind
  text : List Char
deriving Repr, DecidableEq, Inhabited

structure Cls where
  letter : Char → Bool
  digit : Char → Bool

def Cls.keyChar (cls : Cls) (c : Char) : Bool := cls.letter c || cls.digit c || c = '_'
def Cls.textChar (cls : Cls) (c : Char) : Bool :=
  cls.keyChar c || c = '.' || c = '-' || c = '+' || c = '/' || c = '\'' || c = '@' || c = ':'

def isWS (c : Char) : Bool := c = ' ' || c = '\t' || c = '\n' || c = '\r'

def lowerAscii (c : Char) : Char := if 'A' ≤ c ∧ c ≤ 'Z' then Char.ofNat (c.toNat + 32) else c

/-- does the input start with the keyword (ASCII case-insensitive)? -/
def startsKw (kw : List Char) (inp : List Char) : Bool :=
  kw.length ≤ inp.length && (inp.take kw.length).map lowerAscii == kw

/-- length of the longest `PROPERTY` match: `(letter+ '.')? keyChar+` -/
def propLen (cls : Cls) (inp : List Char) : Nat :=
  let l := (inp.takeWhile cls.letter).length
  let k := (inp.takeWhile cls.keyChar).length
  let a :=
    if l ≥ 1 then
      match inp.drop l with
      | '.' :: r =>
        let k2 := (r.takeWhile cls.keyChar).length
        if k2 ≥ 1 then l + 1 + k2 else 0
      | _ => 0
    else 0
  max a k

/-- one token from input that does not start with white space -/
def tokenAt (cls : Cls) : List Char → Option (Tok × List Char)
  | [] => none
  | '(' :: r => some (⟨.lparen, ['(']⟩, r)
  | ')' :: r => some (⟨.rparen, [')']⟩, r)
  | '!' :: '=' :: r => some (⟨.comparator, ['!', '=']⟩, r)
  | '>' :: '=' :: r => some (⟨.comparator, ['>', '=']⟩, r)
  | '<' :: '=' :: r => some (⟨.comparator, ['<', '=']⟩, r)
  | '=' :: r => some (⟨.comparator, ['=']⟩, r)
  | '~' :: r => some (⟨.comparator, ['~']⟩, r)
  | '>' :: r => some (⟨.comparator, ['>']⟩, r)
  | '<' :: r => some (⟨.comparator, ['<']⟩, r)
  | '"' :: r =>
    match LexText.textEnd r false 0 none with
    | some n => some (⟨.string, '"' :: r.take n⟩, r.drop n)
    | none => some (⟨.error, ['"']⟩, r)
  | c :: r =>
    if cls.textChar c then
      let inp := c :: r
      let tlen := (inp.takeWhile cls.textChar).length
      let plen := propLen cls inp
      let kind :=
        if tlen = 3 ∧ startsKw ['a', 'n', 'd'] inp then TokKind.and
        else if tlen = 2 ∧ startsKw ['o', 'r'] inp then TokKind.or
        else if tlen = 3 ∧ startsKw ['h', 'a', 's'] inp then TokKind.comparator
        else if tlen = 2 ∧ startsKw ['i', 's'] inp then TokKind.comparator
        else if plen = tlen then TokKind.property
        else TokKind.text
      some (⟨kind, inp.take tlen⟩, inp.drop tlen)
    else some (⟨.error, [c]⟩, r)

def nextToken (cls : Cls) (inp : List Char) : Option (Tok × List Char) :=
  tokenAt cls (inp.dropWhile isWS)

def lexAllAux (cls : Cls) : Nat → List Char → List Tok
  | 0, _ => []
  | fuel + 1, inp =>
    match nextToken cls inp with
    | none => []
    | some (t, rest) => t :: lexAllAux cls fuel rest

def lexAll (cls : Cls) (inp : List Char) : List Tok := lexAllAux cls (inp.length + 1) inp

end GoflowModel.ContactQL
