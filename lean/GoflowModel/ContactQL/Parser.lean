import GoflowModel.ContactQL.Ast
import GoflowModel.ContactQL.Lexer
/-
The ContactQL parser (the parser ANTLR generates from `antlr/ContactQL.g4`, with the visitor of
`contactql/visitor.go`) over the token stream, as precedence climbing with ANTLR's levels for the
left-recursive rule `expression`: `AND` 6, juxtaposition (implicit and) 5, `OR` 4, all left
associative (the right operand is parsed one level higher); primaries: a parenthesised expression,
`PROPERTY COMPARATOR literal`, a literal on its own (an implicit condition).  The tree is built as
the visitor builds it (binary combinations); `ParseQuery` then simplifies it.

What the environment and the assets decide is a parameter: which names are attributes, which are
URN schemes, what an implicit condition becomes, lower-casing.  Redaction errors are not modelled
(the parser under the default policy).
-/
namespace GoflowModel.ContactQL

structure PEnv where
  isAttr : List Char → Bool
  isScheme : List Char → Bool
  implicit : List Char → Cond
  lower : List Char → List Char

/-- the comparator a `COMPARATOR` token (lower-cased) denotes, with the aliases `has` and `is` -/
def opOfText (t : List Char) : Option Op :=
  if t = ['='] then some .eq else if t = ['!', '='] then some .neq else if t = ['~'] then some .contains
  else if t = ['>'] then some .gt else if t = ['<'] then some .lt else if t = ['>', '='] then some .gte
  else if t = ['<', '='] then some .lte else if t = ['h', 'a', 's'] then some .contains
  else if t = ['i', 's'] then some .eq else none

/-- `VisitTextLiteral` / `VisitStringLiteral` -/
def literalOf (t : Tok) : Option (List Char) :=
  match t.kind with
  | .property => some t.text
  | .text => some t.text
  | .string => Quote.literalValue t.text
  | _ => none

/-- the part before the first `.` and the part after it -/
def splitDot : List Char → Option (List Char × List Char)
  | [] => none
  | '.' :: r => some ([], r)
  | c :: r => (splitDot r).map fun p => (c :: p.1, p.2)

/-- the property of `VisitCondition`; `none` = "unknown property type" -/
def resolveProp (env : PEnv) (propText : List Char) : Option (PropType × List Char) :=
  match splitDot propText with
  | some (t, k) =>
    if t = "fields".toList then some (.field, k)
    else if t = "urns".toList then some (.urn, k)
    else none
  | none =>
    if env.isAttr propText then some (.attr, propText)
    else if env.isScheme propText then some (.urn, propText)
    else some (.field, propText)

def startsExpr (t : Tok) : Bool :=
  t.kind = .lparen || t.kind = .property || t.kind = .text || t.kind = .string

mutual
  /-- `expression[p]` -/
  def parseExpr (env : PEnv) : Nat → Nat → List Tok → Option (Node × List Tok)
    | 0, _, _ => none
    | fuel + 1, p, ts =>
      match parsePrimary env fuel ts with
      | none => none
      | some (l, rest) => parseOps env fuel p l rest
  /-- the operator loop of `expression[p]` -/
  def parseOps (env : PEnv) : Nat → Nat → Node → List Tok → Option (Node × List Tok)
    | 0, _, _, _ => none
    | fuel + 1, p, l, ts =>
      match ts with
      | [] => some (l, ts)
      | t :: rest =>
        if t.kind = .and then
          if p ≤ 6 then
            match parseExpr env fuel 7 rest with
            | none => none
            | some (r, rest') => parseOps env fuel p (.comb true [l, r]) rest'
          else some (l, ts)
        else if t.kind = .or then
          if p ≤ 4 then
            match parseExpr env fuel 5 rest with
            | none => none
            | some (r, rest') => parseOps env fuel p (.comb false [l, r]) rest'
          else some (l, ts)
        else if startsExpr t then
          if p ≤ 5 then
            match parseExpr env fuel 6 ts with
            | none => none
            | some (r, rest') => parseOps env fuel p (.comb true [l, r]) rest'
          else some (l, ts)
        else some (l, ts)
  def parsePrimary (env : PEnv) : Nat → List Tok → Option (Node × List Tok)
    | 0, _ => none
    | _ + 1, [] => none
    | fuel + 1, t :: rest =>
      if t.kind = .lparen then
        match parseExpr env fuel 0 rest with
        | some (e, t2 :: rest') => if t2.kind = .rparen then some (e, rest') else none
        | _ => none
      else if t.kind = .property then
        match rest with
        | c :: rest2 =>
          if c.kind = .comparator then
            match rest2 with
            | v :: rest3 =>
              match opOfText (env.lower c.text), literalOf v, resolveProp env (env.lower t.text) with
              | some op, some value, some (pt, key) => some (.cond ⟨pt, key, op, value⟩, rest3)
              | _, _, _ => none
            | [] => none
          else some (.cond (env.implicit t.text), rest)
        | [] => some (.cond (env.implicit t.text), rest)
      else if t.kind = .text then some (.cond (env.implicit t.text), rest)
      else if t.kind = .string then
        match Quote.literalValue t.text with
        | some v => some (.cond (env.implicit v), rest)
        | none => none
      else none
end

/-- `ParseQuery`: the whole input, no error token, then `Simplify` -/
def parseQuery (env : PEnv) (ts : List Tok) : Option (Option Node) :=
  if ts.any (fun t => t.kind = .error) then none
  else
    match parseExpr env (4 * ts.length + 8) 0 ts with
    | some (e, []) => some (simplify e)
    | _ => none

/-! ### the printer, as tokens -/

def propText (c : Cond) : List Char :=
  match c.ptype with
  | .field => "fields.".toList ++ c.key
  | .urn => "urns.".toList ++ c.key
  | .attr => c.key

/-- the value as `Condition.String()` writes it: bare if it looks like a number, else quoted -/
def valueTok (pr : Char → Bool) (v : List Char) : Tok :=
  if isNumber v then ⟨(if v.contains '.' then .text else .property), v⟩ else ⟨.string, quoteValue pr v⟩

def condToks (pr : Char → Bool) (c : Cond) : List Tok :=
  [⟨.property, propText c⟩, ⟨.comparator, c.op.text⟩, valueTok pr c.value]

def sepTok (isAnd : Bool) : Tok := if isAnd then ⟨.and, "AND".toList⟩ else ⟨.or, "OR".toList⟩

mutual
  /-- the tokens of `QueryNode.String()` -/
  def nodeToks (pr : Char → Bool) : Node → List Tok
    | .cond c => condToks pr c
    | .comb isAnd cs => ⟨.lparen, ['(']⟩ :: (joinToks pr isAnd cs ++ [⟨.rparen, [')']⟩])
  def joinToks (pr : Char → Bool) (isAnd : Bool) : List Node → List Tok
    | [] => []
    | [n] => nodeToks pr n
    | n :: m :: r => nodeToks pr n ++ (sepTok isAnd :: joinToks pr isAnd (m :: r))
end

/-- the tokens of `Stringify`: the outermost parentheses are left out -/
def queryToks (pr : Char → Bool) : Node → List Tok
  | .cond c => condToks pr c
  | .comb isAnd cs => joinToks pr isAnd cs

end GoflowModel.ContactQL
