import GoflowModel.Basic.Quote
/-
ContactQL query trees (`contactql/parser.go`): `Condition`, `BoolCombination`, their
`String()` methods, `Stringify`, `Simplify`, and the boolean skeleton of `evaluateNode`.
-/
namespace GoflowModel.ContactQL

inductive PropType where
  | attr | urn | field
deriving Repr, DecidableEq, Inhabited

inductive Op where
  | eq | neq | contains | gt | lt | gte | lte
deriving Repr, DecidableEq, Inhabited

def Op.text : Op → List Char
  | .eq => ['='] | .neq => ['!', '='] | .contains => ['~'] | .gt => ['>'] | .lt => ['<']
  | .gte => ['>', '='] | .lte => ['<', '=']

structure Cond where
  ptype : PropType
  key : List Char
  op : Op
  value : List Char
deriving Repr, DecidableEq, Inhabited

inductive Node where
  | cond (c : Cond)
  | comb (isAnd : Bool) (children : List Node)
deriving Repr, Inhabited

def isAsciiDigit (c : Char) : Bool := '0' ≤ c ∧ c ≤ '9'

/-- `isNumberRegex = ^\d+(\.\d+)?$` -/
def isNumber (v : List Char) : Bool :=
  let a := v.takeWhile isAsciiDigit
  let r := v.dropWhile isAsciiDigit
  !a.isEmpty && (r.isEmpty ||
    (match r with
     | '.' :: f => !f.isEmpty && f.all isAsciiDigit
     | _ => false))

/-- `quoteValue` / `flows.ContactQueryEscaping`: `strconv.Quote`, except that a trailing backslash
is written as the six-character unicode escape, because the lexer takes a quote that follows a
backslash *character* as escaped. -/
def quoteValue (pr : Char → Bool) (v : List Char) : List Char :=
  if v.getLast? = some '\\' then
    '"' :: (Quote.escBody pr v.dropLast ++ ['\\', 'u', '0', '0', '5', 'c', '"'])
  else Quote.quote pr v

/-- `Condition.String()`; `pr` = `strconv.IsPrint` -/
def condString (pr : Char → Bool) (c : Cond) : List Char :=
  let property := match c.ptype with
    | .field => "fields.".toList ++ c.key
    | .urn => "urns.".toList ++ c.key
    | .attr => c.key
  let value := if isNumber c.value then c.value else quoteValue pr c.value
  property ++ [' '] ++ c.op.text ++ [' '] ++ value

def joinSep (sep : List Char) : List (List Char) → List Char
  | [] => []
  | [x] => x
  | x :: y :: r => x ++ sep ++ joinSep sep (y :: r)

mutual
/-- `QueryNode.String()` -/
def nodeString (pr : Char → Bool) : Node → List Char
  | .cond c => condString pr c
  | .comb isAnd cs =>
    ['('] ++ joinSep (if isAnd then " AND ".toList else " OR ".toList) (nodesString pr cs) ++ [')']
def nodesString (pr : Char → Bool) : List Node → List (List Char)
  | [] => []
  | n :: ns => nodeString pr n :: nodesString pr ns
end

/-- `Stringify`: the top level loses its enclosing parentheses; `none` (nil) prints empty -/
def stringify (pr : Char → Bool) : Option Node → List Char
  | none => []
  | some n =>
    let s := nodeString pr n
    if s.head? = some '(' ∧ s.getLast? = some ')' then (s.drop 1).dropLast else s

/-- promote grand-children combined with the same operator -/
def promote (isAnd : Bool) : List Node → List Node
  | [] => []
  | .comb a gs :: r => (if a = isAnd then gs else [.comb a gs]) ++ promote isAnd r
  | .cond c :: r => .cond c :: promote isAnd r

mutual
/-- `Simplify()`; `none` = the Go `nil` a childless combination simplifies to -/
def simplify : Node → Option Node
  | .cond c => some (.cond c)
  | .comb isAnd cs =>
    match promote isAnd (simplifyList cs) with
    | [] => none
    | [x] => some x
    | x :: y :: r => some (.comb isAnd (x :: y :: r))
def simplifyList : List Node → List Node
  | [] => []
  | n :: ns =>
    match simplify n with
    | none => simplifyList ns
    | some m => m :: simplifyList ns
end

mutual
/-- `evaluateNode` over an arbitrary interpretation of conditions -/
def eval (q : Cond → Bool) : Node → Bool
  | .cond c => q c
  | .comb true cs => evalAll q cs
  | .comb false cs => evalAny q cs
def evalAll (q : Cond → Bool) : List Node → Bool
  | [] => true
  | n :: ns => eval q n && evalAll q ns
def evalAny (q : Cond → Bool) : List Node → Bool
  | [] => false
  | n :: ns => eval q n || evalAny q ns
end

mutual
/-- every combination has at least one child (parsed queries have at least two) -/
def NonEmpty : Node → Bool
  | .cond _ => true
  | .comb _ cs => !cs.isEmpty && nonEmptyList cs
def nonEmptyList : List Node → Bool
  | [] => true
  | n :: ns => NonEmpty n && nonEmptyList ns
end

/-! ### `evaluateCondition` and the comparison primitives -/

/-- values a queryable returns for a property: texts, numbers (as integers at a common scale,
supplied by the harness) or instants -/
inductive Val where
  | text (s : List Char)
  | num (n : Int)
  | time (t : Int)
deriving Repr, DecidableEq, Inhabited

/-- `numberComparison`; `none` = the Go `panic` for an operator validation never admits -/
def numCmp (obj : Int) (op : Op) (qv : Int) : Option Bool :=
  match op with
  | .eq => some (obj == qv) | .neq => some (obj != qv)
  | .gt => some (obj > qv) | .gte => some (obj ≥ qv)
  | .lt => some (obj < qv) | .lte => some (obj ≤ qv)
  | .contains => none

/-- `dateComparison` against the UTC range `[s, e)` of the query value's calendar day -/
def dateCmp (obj : Int) (op : Op) (s e : Int) : Option Bool :=
  match op with
  | .eq => some (s ≤ obj && obj < e) | .neq => some (!(s ≤ obj && obj < e))
  | .gt => some (e ≤ obj) | .gte => some (s ≤ obj)
  | .lt => some (obj < s) | .lte => some (obj < e)
  | .contains => none

/-- the any/all combination of `evaluateCondition` over the per-value results -/
def combineVals (op : Op) (valueEmpty : Bool) (results : List Bool) : Bool :=
  if valueEmpty ∧ op = .eq then results.isEmpty
  else if valueEmpty ∧ op = .neq then !results.isEmpty
  else if op = .neq then results.all id
  else results.any id

end GoflowModel.ContactQL
