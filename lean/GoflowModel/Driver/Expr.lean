import GoflowModel.Excellent.Expr
import GoflowModel.Driver.Util
/-
  exprpp <tokens>                      →  ok <hex String()> <tokens of String()> | err
  exprrename <hex from> <hex to> <tokens>  →  ok <hex String() after renaming> <changed 01> | err
tokens: comma separated; COMMA LPAREN RPAREN LBRACK RBRACK DOT ARROW TRUE FALSE NULL ERROR, operators by
their ANTLR names (PLUS MINUS TIMES DIVIDE EXPONENT EQ NEQ LTE LT GTE GT AMPERSAND), and TEXT:hex INTEGER:hex
DECIMAL:hex NAME:hex
-/
namespace GoflowModel.Driver.Expr
open GoflowModel GoflowModel.Driver GoflowModel.Expr

def parseTok (s : String) : Option Tok :=
  match s.splitOn ":" with
  | ["COMMA"] => some .comma | ["LPAREN"] => some .lparen | ["RPAREN"] => some .rparen
  | ["LBRACK"] => some .lbrack | ["RBRACK"] => some .rbrack | ["DOT"] => some .dot | ["ARROW"] => some .arrow
  | ["TRUE"] => some .tru | ["FALSE"] => some .fls | ["NULL"] => some .null | ["ERROR"] => some .error
  | ["PLUS"] => some (.op .add) | ["MINUS"] => some (.op .sub) | ["TIMES"] => some (.op .mul) | ["DIVIDE"] => some (.op .div)
  | ["EXPONENT"] => some (.op .exp) | ["EQ"] => some (.op .eq) | ["NEQ"] => some (.op .neq) | ["LTE"] => some (.op .lte)
  | ["LT"] => some (.op .lt) | ["GTE"] => some (.op .gte) | ["GT"] => some (.op .gt) | ["AMPERSAND"] => some (.op .amp)
  | ["TEXT", h] => (decL h).map .text
  | ["INTEGER", h] => (decL h).map .int
  | ["DECIMAL", h] => (decL h).map .dec
  | ["NAME", h] => (decL h).map .name
  | _ => none

def showTok : Tok → String
  | .comma => "COMMA" | .lparen => "LPAREN" | .rparen => "RPAREN" | .lbrack => "LBRACK" | .rbrack => "RBRACK"
  | .dot => "DOT" | .arrow => "ARROW" | .tru => "TRUE" | .fls => "FALSE" | .null => "NULL" | .error => "ERROR"
  | .op .add => "PLUS" | .op .sub => "MINUS" | .op .mul => "TIMES" | .op .div => "DIVIDE" | .op .exp => "EXPONENT"
  | .op .eq => "EQ" | .op .neq => "NEQ" | .op .lte => "LTE" | .op .lt => "LT" | .op .gte => "GTE" | .op .gt => "GT"
  | .op .amp => "AMPERSAND"
  | .text r => "TEXT:" ++ encL r | .int s => "INTEGER:" ++ encL s | .dec s => "DECIMAL:" ++ encL s | .name s => "NAME:" ++ encL s

def parseToks (s : String) : Option (List Tok) := if s == "_" then some [] else (s.splitOn ",").mapM parseTok

def handle : List String → Option String
  | ["exprpp", ts] => do
    let ts ← parseToks ts
    match Expr.parse ts with
    | none => some "err"
    | some e => some s!"ok {encL (render e)} {",".intercalate ((toks e).map showTok)}"
  | ["exprrename", src, dst, ts] => do
    let ts ← parseToks ts
    let src ← decL src
    let dst ← decL dst
    match Expr.parse ts with
    | none => some "err"
    | some e =>
      let e' := rename src dst e
      some s!"ok {encL (render e')} {if render e' == render e && toks e' == toks e then 0 else 1}"
  | _ => none

end GoflowModel.Driver.Expr
