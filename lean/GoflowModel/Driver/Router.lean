import GoflowModel.Engine.Router
import GoflowModel.Driver.Util
namespace GoflowModel.Driver.Router
open GoflowModel.Router GoflowModel.Driver

def parseCat (s : String) : Option Category :=
  match s.splitOn "~" with
  | [n, e] => do
    let name ← decL n
    let exit ← if e == "-" then some none else e.toNat?.map some
    some ⟨name, exit⟩
  | _ => none

def parseCats (s : String) : Option (List Category) := (s.splitOn ",").mapM parseCat

def parseNats (s : String) : Option (List Nat) := if s == "_" then some [] else (s.splitOn ",").mapM (·.toNat?)

def parseOutcome (s : String) : Option TestOutcome :=
  if s == "n" then some .noMatch else if s == "e" then some .error
  else if s.startsWith "m" then (decL (s.drop 1).toString).map .matched else none

def parseOutcomes (s : String) : Option (List TestOutcome) :=
  if s == "_" then some [] else (s.splitOn ",").mapM parseOutcome

def parseRN (s : String) : Option (Option (List Char)) := if s == "*" then some none else (decL s).map some

def showRouted (r : Routed) : String :=
  "exit " ++ (match r.exit with | none => "-" | some e => toString e) ++ " " ++
  (match r.result with
   | none => "noresult"
   | some x => s!"result {encL x.name} {encL x.value} {encL x.category} {encL x.input}")

def handle : List String → Option String
  | ["rswitch", cats, cases, dflt, rn, operand, outcomes] => do
    let cats ← parseCats cats
    let cases ← parseNats cases
    let d ← if dflt == "-" then some none else dflt.toNat?.map some
    let rn ← parseRN rn
    let op ← decL operand
    let os ← parseOutcomes outcomes
    some (showRouted (routeSwitch ⟨cats, cases, d, rn⟩ op os))
  | ["rrandom", cats, rn, num, den, draw] => do
    let cats ← parseCats cats
    let rn ← parseRN rn
    let draw ← decL draw
    let num ← num.toNat?
    let den ← den.toNat?
    let idx := randomIndex num den cats.length
    some (showRouted (routeRandom cats rn num den draw (toString idx).toList))
  | ["rtimeout", cats, rn, t, ts] => do
    let cats ← parseCats cats
    let rn ← parseRN rn
    let ts ← decL ts
    some (showRouted (routeTimeout cats rn (← t.toNat?) ts))
  | _ => none

end GoflowModel.Driver.Router
