import GoflowModel.Basic.Dec
import GoflowModel.Basic.DateText
import GoflowModel.Engine.Determinism
import GoflowModel.Engine.Concurrent
import GoflowModel.Engine.Redaction
import GoflowModel.Engine.Migrate
import GoflowModel.Excellent.Guards
import GoflowModel.Gen.Consts
import GoflowModel.Driver.Util
import GoflowModel.Excellent.SliceGuards
/-
  numrender <coefficient> <exponent>        →  ok <hex text>
  numparse <hex text>                       →  ok <coefficient> <exponent> | err
  dtfmt <ymd|mdy|dmy> <hm|hma|hms|hmsa> y m d h mi s   →  ok <hex text>
  dtiso y m d h mi s nanos offMin           →  ok <hex text>
  dtparse <ymd|mdy|dmy> <currentYear> <hex> →  ok y m d h mi s nanos | iso y m d h mi s nanos offMin | err
  timeparse <hex>                           →  ok h mi s nanos | err
  cqlredact <hex property> <value empty 01>  →  accept | reject-redacted                  (VisitCondition under the urns policy)
  ctxview <redact01> <hex name> <id> <urns> <sendable schemes>  →  default=… urn=… urns=… by=…   (Contact.Context)
  repeatguard <len> <count> → ok <n> | err ; roundguard <places> → ok | err ; expguard <e> → ok | err ; callrun <e|l…> → ok <calls> <depth>
  beginguard <bytes of text> <bytes of beginning> → ok <slice end> | none ; readchars <hex ASCII text> → ok <hex> ; wordguard <n> <index> → ok <offset> | none ; wordsliceguard <n> <start> <end or -1> → ok <lo> <hi> | none ; fieldguard <n> <index> → ok <i> | none
  limitname <max> <hex name>                →  ok <hex>                                    (Migrate13_6)
  legacyorder <entry id> <id:y,…>           →  ok <ids in migrated order>                  (legacy.migrateNodes)
  objget <hex names,…> <hex key>            →  ok <index of the property found> | none   (XObject.Get)
  objprops <hex names,…>                    →  ok <hex names sorted>                      (XObject.Properties)
-/
namespace GoflowModel.Driver.Values
open GoflowModel GoflowModel.Driver

/-- `strings.TrimSpace` -/
def isSpace (c : Char) : Bool :=
  c == ' ' || ('\t' ≤ c && c ≤ '\r') || c.toNat == 0x85 || c.toNat == 0xA0 || c.toNat == 0x1680 ||
  (0x2000 ≤ c.toNat && c.toNat ≤ 0x200a) || c.toNat == 0x2028 || c.toNat == 0x2029 || c.toNat == 0x202f ||
  c.toNat == 0x205f || c.toNat == 0x3000
def trimSpace (s : List Char) : List Char := ((s.dropWhile isSpace).reverse.dropWhile isSpace).reverse

def parseInt (s : String) : Option Int := s.toInt?

def showCoeff (d : Dec.Dec) : String :=
  let ds := Dec.trimLeadingZeros d.digits
  if ds = [] then "0" else (if d.neg then "-" else "") ++ String.ofList ds

def parseDF : String → Option DateText.DF
  | "ymd" => some .ymd | "mdy" => some .mdy | "dmy" => some .dmy | _ => none
def parseTF : String → Option DateText.TF
  | "hm" => some .hm | "hma" => some .hmAmPm | "hms" => some .hms | "hmsa" => some .hmsAmPm | _ => none

def nextDay (x : DateText.Date) : DateText.Date :=
  if x.d < DateText.daysIn x.y x.m then ⟨x.y, x.m, x.d + 1⟩
  else if x.m < 12 then ⟨x.y, x.m + 1, 1⟩ else ⟨x.y + 1, 1, 1⟩

/-- `time.Date` normalisation of an hour of 24, a minute of 60 or a second of 60 -/
def normalise (x : DateText.Date) (t : DateText.TimeOfDay) : DateText.Date × DateText.TimeOfDay :=
  let total := t.h * 3600 + t.mi * 60 + t.s
  let x' := if total ≥ 86400 then nextDay x else x
  let r := total % 86400
  (x', ⟨r / 3600, r % 3600 / 60, r % 60, t.nanos⟩)

def handle : List String → Option String
  | ["numrender", coeff, e] => do
    let e ← parseInt e
    let neg := coeff.startsWith "-"
    let ds := (if neg then coeff.drop 1 else coeff).toString.toList
    if ds.isEmpty || !ds.all Dec.isDigit then none
    some ("ok " ++ encL (Dec.render ⟨neg, ds, e⟩))
  | ["numparse", h] => do
    let s ← decL h
    match Dec.parse (trimSpace s) with
    | none => some "err"
    | some d => some s!"ok {showCoeff d} {d.exp}"
  | ["dtfmt", df, tf, y, m, d, h, mi, s] => do
    some ("ok " ++ encL (DateText.fmtDateTime (← parseDF df) (← parseTF tf) ⟨← y.toNat?, ← m.toNat?, ← d.toNat?⟩
      ⟨← h.toNat?, ← mi.toNat?, ← s.toNat?, 0⟩))
  | ["dtiso", y, m, d, h, mi, s, ns, off] => do
    some ("ok " ++ encL (DateText.fmtISO ⟨← y.toNat?, ← m.toNat?, ← d.toNat?⟩
      ⟨← h.toNat?, ← mi.toNat?, ← s.toNat?, ← ns.toNat?⟩ (← parseInt off)))
  | ["dtparse", df, cy, h] => do
    let s ← decL h
    match DateText.parseDateTime (← parseDF df) (← cy.toNat?) s with
    | none => some "err"
    | some (.iso x t o) => some s!"iso {x.y} {x.m} {x.d} {t.h} {t.mi} {t.s} {t.nanos} {o}"
    | some (.local x t) =>
      let (x, t) := normalise x t
      some s!"ok {x.y} {x.m} {x.d} {t.h} {t.mi} {t.s} {t.nanos}"
  | ["timeparse", h] => do
    let s ← decL h
    match DateText.parseTime s with
    | none => some "err"
    | some t => some s!"ok {t.h} {t.mi} {t.s} {t.nanos}"
  | ["objget", names, key] => do
    -- properties carry their position as value; the answer is the position of the property found
    let ns ← (if names == "-" then some [] else (names.splitOn ",").mapM decL)
    let k ← decL key
    let props := (ns.map String.ofList).zipIdx
    match Determinism.getCI Determinism.lowerAscii props (String.ofList k) with
    | none => some "none"
    | some p => some s!"ok {p.2}"
  | ["objprops", names] => do
    let ns ← (if names == "-" then some [] else (names.splitOn ",").mapM decL)
    let sorted := Determinism.collectSorted (fun a b => decide (a ≤ b)) id (ns.map String.ofList)
    some ("ok " ++ ",".intercalate (sorted.map fun s => encL s.toList))
  | ["cqlredact", prop, empty] => do
    let p := String.ofList (← decL prop)
    let kind : Redaction.PropKind :=
      if p == "urn" then .attrURN
      else if p.startsWith "urns." then .urnsPrefix
      else if Gen.Consts.urnSchemes.contains p then .scheme
      else .other
    some (if Redaction.rejectsRedacted true kind (empty == "1") then "reject-redacted" else "accept")
  | ["ctxview", redact, name, id, urnsS, sendable] => do
    -- urns: scheme~path~display~channel ("-" = none), comma separated, "_" = no URNs; sendable: schemes a channel can send to
    let parseURN (t : String) : Option Redaction.URN :=
      match t.splitOn "~" with
      | [a, b, c, d] => do some ⟨← a.toNat?, ← b.toNat?, ← c.toNat?, ← (if d == "-" then some none else d.toNat?.map some)⟩
      | _ => none
    let us ← (if urnsS == "_" then some [] else (urnsS.splitOn ",").mapM parseURN)
    let snd ← (if sendable == "_" then some [] else (sendable.splitOn ",").mapM (·.toNat?))
    let c : Redaction.Contact := ⟨← decL name, ← id.toNat?, us, 0⟩
    let cx := Redaction.contactCtx (redact == "1") (fun s _ => snd.contains s) c
    let showV (v : Redaction.URNView) : String :=
      match v.clear with
      | none => s!"{v.scheme}:*"
      | some (p, d) => s!"{v.scheme}:{p}~{d}"
    let showO (o : Option Redaction.URNView) : String := match o with | none => "-" | some v => showV v
    let dflt := match cx.default with
      | .name n => "name:" ++ encL n
      | .id n => s!"id:{n}"
      | .urn p => s!"urn:{p}"
      | .nothing => "nothing"
    let schemes := (us.map (·.scheme)).eraseDups
    some s!"default={dflt} urn={showO cx.urn} urns={",".intercalate (cx.urns.map showV)} by={",".intercalate (schemes.map fun sc => showO (cx.byScheme sc))}"
  | ["repeatguard", len, count] => do
    some (match Guards.repeatLen (← len.toNat?) (← parseInt count) with | none => "err" | some n => s!"ok {n}")
  | ["roundguard", places] => do
    some (if Guards.placesOk (← parseInt places) then "ok" else "err")
  | ["wordguard", n, index] => do
    some (match Guards.wordOffset (← n.toNat?) (← parseInt index) with | none => "none" | some o => s!"ok {o}")
  | ["wordsliceguard", n, start, stop] => do
    some (match Guards.wordSliceBounds (← n.toNat?) (← parseInt start) (← parseInt stop) with
      | none => "none" | some (lo, hi) => s!"ok {lo} {hi}")
  | ["numexpguard", which, frac, e] => do
    -- numexpguard <json|query> <fraction digits> <e>  →  ok | refused
    let f ← frac.toNat?
    let ex ← parseInt e
    some (if (if which == "json" then SliceGuards.jsonNumberOk f ex else SliceGuards.queryNumberOk f ex) then "ok" else "refused")
  | ["beginguard", h, p] => do
    some (match SliceGuards.beginningEnd (← h.toNat?) (← p.toNat?) with | none => "none" | some e => s!"ok {e}")
  | ["readchars", h] => do
    some ("ok " ++ encL (SliceGuards.readCharsAscii (← decL h)))
  | ["fieldguard", n, index] => do
    some (match Guards.fieldIndex (← n.toNat?) (← parseInt index) with | none => "none" | some i => s!"ok {i}")
  | ["expguard", e] => do
    some (if Guards.exponentOk (← parseInt e) then "ok" else "err")
  | ["callrun", evs] => do
    -- e = an anonymous function call is attempted, l = one returns; answers: how many went ahead, final depth
    let es ← (evs.toList.mapM fun c => if c == 'e' then some Guards.Ev.enter else if c == 'l' then some Guards.Ev.leave else none)
    let r := Guards.run ⟨0, 0⟩ es
    some s!"ok {r.2} {r.1.depth}"
  | ["limitname", mx, h] => do
    some ("ok " ++ encL (Migrate.limitName (← mx.toNat?) (← decL h)))
  | ["legacyorder", entry, nodes] => do
    -- nodes: id:y,id:y,… in the order action sets then rule sets are listed
    let ns ← (nodes.splitOn ",").mapM fun t =>
      match t.splitOn ":" with
      | [i, y] => do some ((← i.toNat?, ← y.toInt?) : Migrate.LNode)
      | _ => none
    some ("ok " ++ ",".intercalate ((Migrate.legacyOrder (← entry.toNat?) ns).map fun n => toString n.1))
  | ["cacheseq", keys] => do
    -- each request is a thread that runs alone to completion (lock, look/load, store+unlock); key 9 does not exist
    let ks ← (keys.splitOn ",").mapM (·.toNat?)
    let key := fun t => ks.getD t 0
    -- a missing flow is an error: nothing is stored, so it is read again each time (model: never cached)
    let final := (List.range ks.length).foldl (fun (acc : Concurrent.Cache.St × List Nat) t =>
      if key t = 9 then (acc.1, acc.2 ++ [9])
      else
        let s' := Concurrent.Cache.run key id [t, t, t] acc.1
        (s', if s'.loads.length > acc.1.loads.length then acc.2 ++ [key t] else acc.2)) (Concurrent.Cache.init, [])
    some ("reads " ++ ",".intercalate (final.2.map toString))
  | _ => none

end GoflowModel.Driver.Values
