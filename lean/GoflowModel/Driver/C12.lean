import GoflowModel.Driver.Util
import GoflowModel.Basic.Tables
import GoflowModel.Basic.Quote
import GoflowModel.Excellent.Template
namespace GoflowModel.Driver.C12
open GoflowModel Driver

def cfgOf (tops : Option (List (List Char))) (unesc : Bool) : Scanner.Cfg :=
  { nc := Tables.isNameChar, lower := Tables.asciiLower, tops := tops, unesc := unesc }

def showTok (t : Scanner.Token) : String :=
  (match t.kind with | .body => "B:" | .identifier => "I:" | .expression => "E:") ++ encL t.text

def handle : List String → Option String
  | ["scan", tops, unesc, tpl] => do
    let tops ← if tops == "*" then some none else (decList tops).map some
    let tpl ← decL tpl
    let toks := Scanner.scanAll (cfgOf tops (unesc == "1")) tpl
    some (" ".intercalate ("toks" :: toks.map showTok))
  | ["quote", s] => do
    let s ← decL s
    some ("ok " ++ encL (Quote.quote Tables.isPrint s))
  | ["unquote", s] => do
    let s ← decL s
    some (match Quote.unquote s with
      | .ok v => "ok " ++ encL v
      | .syntaxErr => "err"
      | .bytes => "skip")
  | ["lextext", s] => do
    let s ← decL s
    some (match LexText.lexText s with
      | some (tok, _) => "tok " ++ toString tok.length
      | none => "none")
  | ["tpllit", tops, tpl] => do
    let tops ← if tops == "*" then some none else (decList tops).map some
    let tpl ← decL tpl
    some (match Template.evalLiteralTemplate (cfgOf tops true) tpl with
      | some v => "ok " ++ encL v
      | none => "skip")
  | _ => none

end GoflowModel.Driver.C12
