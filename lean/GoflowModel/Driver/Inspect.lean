import GoflowModel.Engine.Inspect
import GoflowModel.Gen.Actions
import GoflowModel.Driver.Util
import GoflowModel.Engine.InspectRefs
import GoflowModel.Gen.ContextDoc
import GoflowModel.Engine.ResultSpecs
namespace GoflowModel.Driver.Inspect
open GoflowModel.Inspect GoflowModel.Driver

def parseAction (s : String) : Option Action :=
  match s.splitOn "~" with
  | [kind, rn] => do
    let row ← Gen.Actions.actionResults.find? (·.1 == kind)
    let rn ← if rn == "*" then some none else (decL rn).map some
    some ⟨kind, row.2.1, row.2.2, rn⟩
  | _ => none

def parseNode (s : String) : Option Node :=
  match s.splitOn "|" with
  | [acts, router, exits] => do
    let acts ← if acts == "_" then some [] else (acts.splitOn ",").mapM parseAction
    let router ← if router == "-" then some none else
      match router.splitOn "~" with
      | [rn, w] => do
        let rn ← if rn == "*" then some none else (decL rn).map some
        some (some ⟨rn, [], w == "1"⟩)
      | _ => none
    let exits ← if exits == "_" then some [] else (exits.splitOn ",").mapM (·.toNat?)
    some ⟨acts, router, exits⟩
  | _ => none

def sortDedup (xs : List String) : List String := (xs.toArray.qsort (· < ·)).toList.eraseDups

def handle : List String → Option String
  | ["inspect", spec] => do
    let nodes ← (spec.splitOn ";").mapM parseNode
    let f : Flow := ⟨nodes⟩
    let keys := sortDedup ((declared f).map encL)
    let wex := sortDedup ((waitingExits f).map toString)
    let show_ := fun (l : List String) => if l.isEmpty then "_" else ",".intercalate l
    some s!"keys {show_ keys} waiting {show_ wex}"
  | ["rspecs", rs] => do
    -- rspecs <key:name:node:cats(_|hex,hex…);…>  →  <key:name:cats:nodes;…>     (flows.NewResultSpecs; ASCII categories)
    let parseR := fun (t : String) => match t.splitOn ":" with
      | [k, n, nd, cs] => do
        let cats ← (if cs == "_" then some [] else (cs.splitOn ",").mapM fun h => (decL h).map String.ofList)
        some (⟨← k.toNat?, ← n.toNat?, cats, ← nd.toNat?⟩ : ResultSpecs.Extracted)
      | _ => none
    let ex ← (if rs == "_" then some [] else (rs.splitOn ";").mapM parseR)
    let out := ResultSpecs.newResultSpecs String.toLower ex
    let showS := fun (s : ResultSpecs.Spec) =>
      s!"{s.key}:{s.name}:" ++ (if s.cats.isEmpty then "_" else ",".intercalate (s.cats.map Hex.enc)) ++ ":" ++ ",".intercalate (s.nodes.map toString)
    some (if out.isEmpty then "_" else ";".intercalate (out.map showS))
  | ["ctxref", path] => do
    -- ctxref <hex,hex,…>  →  none | field:<hex key>;global:<hex key>;parentresult:<hex key>… sorted   (ExtractFromTemplate on one dotted chain)
    let p ← decList path
    let show1 := fun (r : InspectRefs.Ref) => match r with
      | .field k => "field:" ++ Hex.enc k
      | .global k => "global:" ++ Hex.enc k
      | .parentResult k => "parentresult:" ++ Hex.enc k
      | .none => "none"
    let rs := ((InspectRefs.chainRefs Gen.ContextDoc.fieldRefPaths String.toLower (p.map String.ofList)).map show1).toArray.qsort (· < ·)
    some (if rs.isEmpty then "none" else ";".intercalate rs.toList)
  | _ => none

end GoflowModel.Driver.Inspect
