import GoflowModel.Basic.Json
import GoflowModel.Basic.JsonString
import GoflowModel.Driver.Util
import GoflowModel.Migrate.Steps
/-
  jsonrt <document as prefix tokens>   →  ok <document as prefix tokens>        (json(parse_json(doc)))

  tokens:  N | T | F | #<coefficient>:<exponent> | S<hex text> | [<n> v₁ … vₙ | {<n> K<hex name> v₁ … K<hex name> vₙ
  in the answer numbers are written as they render: #<text>

  migstep <v> <n> <hex uuid,…> <flow as prefix tokens>  →  ok <n'> <flow as prefix tokens>   (Migrate13_<v> and the version stamp;
                                                            numbers are echoed as coefficient:exponent)

  jsonstr enc <hex text>      →  ok <hex of the string literal json.Marshal writes>
  jsonstr dec <hex literal>   →  ok <hex of its value> | err
-/
namespace GoflowModel.Driver.Json
open GoflowModel GoflowModel.Driver GoflowModel.Json

mutual
  def parseJ : Nat → List String → Option (J × List String)
    | 0, _ => none
    | _ + 1, [] => none
    | fuel + 1, t :: rest =>
      if t = "N" then some (.null, rest)
      else if t = "T" then some (.bool true, rest)
      else if t = "F" then some (.bool false, rest)
      else if t.startsWith "#" then
        match ((t.drop 1).toString.splitOn ":") with
        | [coeff, e] =>
          match e.toInt? with
          | none => none
          | some e =>
            let neg := coeff.startsWith "-"
            let ds := (if neg then (coeff.drop 1).toString else coeff).toList
            if ds.isEmpty || !ds.all Dec.isDigit then none else some (.num ⟨neg, ds, e⟩, rest)
        | _ => none
      else if t.startsWith "S" then (decL (t.drop 1).toString).map fun s => (.str s, rest)
      else if t.startsWith "[" then
        match (t.drop 1).toString.toNat? with
        | none => none
        | some n => (parseL fuel n rest).map fun p => (.arr p.1, p.2)
      else if t.startsWith "{" then
        match (t.drop 1).toString.toNat? with
        | none => none
        | some n => (parseO fuel n rest).map fun p => (.obj p.1, p.2)
      else none
  def parseL : Nat → Nat → List String → Option (JL × List String)
    | 0, _, _ => none
    | _ + 1, 0, ts => some (.nil, ts)
    | fuel + 1, n + 1, ts =>
      match parseJ fuel ts with
      | none => none
      | some (x, rest) => (parseL fuel n rest).map fun p => (.cons x p.1, p.2)
  def parseO : Nat → Nat → List String → Option (JO × List String)
    | 0, _, _ => none
    | _ + 1, 0, ts => some (.nil, ts)
    | _ + 1, _ + 1, [] => none
    | fuel + 1, n + 1, k :: ts =>
      if k.startsWith "K" then
        match decL (k.drop 1).toString, parseJ fuel ts with
        | some key, some (v, rest) => (parseO fuel n rest).map fun p => (.cons key v p.1, p.2)
        | _, _ => none
      else none
end

mutual
  def lenL : JL → Nat
    | .nil => 0
    | .cons _ rest => lenL rest + 1
  def lenO : JO → Nat
    | .nil => 0
    | .cons _ _ rest => lenO rest + 1
end

mutual
  def encJ : J → List String
    | .null => ["N"]
    | .bool true => ["T"]
    | .bool false => ["F"]
    | .num d => ["#" ++ String.ofList (Dec.render (canonDec d))]
    | .str s => ["S" ++ encL s]
    | .arr l => s!"[{lenL l}" :: encJL l
    | .obj l => ("{" ++ toString (lenO l)) :: encJO l
  def encJL : JL → List String
    | .nil => []
    | .cons x rest => encJ x ++ encJL rest
  def encJO : JO → List String
    | .nil => []
    | .cons k v rest => ("K" ++ encL k) :: (encJ v ++ encJO rest)
end

mutual
  /-- as `encJ`, numbers echoed as they were given -/
  def rawJ : J → List String
    | .null => ["N"]
    | .bool true => ["T"]
    | .bool false => ["F"]
    | .num d => ["#" ++ (if d.neg then "-" else "") ++ String.ofList d.digits ++ ":" ++ toString d.exp]
    | .str s => ["S" ++ encL s]
    | .arr l => s!"[{lenL l}" :: rawJL l
    | .obj l => ("{" ++ toString (lenO l)) :: rawJO l
  def rawJL : JL → List String
    | .nil => []
    | .cons x rest => rawJ x ++ rawJL rest
  def rawJO : JO → List String
    | .nil => []
    | .cons k v rest => ("K" ++ encL k) :: (rawJ v ++ rawJO rest)
end

/-- members in the order of their names (the order `encoding/json` writes a map in) -/
def insSorted (k : List Char) (v : J) : JO → JO
  | .nil => .cons k v .nil
  | .cons k' v' rest => if k < k' then .cons k v (.cons k' v' rest) else .cons k' v' (insSorted k v rest)

mutual
  def sortJ : J → J
    | .arr l => .arr (sortJL l)
    | .obj l => .obj (sortJO l)
    | x => x
  def sortJL : JL → JL
    | .nil => .nil
    | .cons x rest => .cons (sortJ x) (sortJL rest)
  def sortJO : JO → JO
    | .nil => .nil
    | .cons k v rest => insSorted k (sortJ v) (sortJO rest)
end

def migstep (v n : Nat) (us : List (List Char)) (toks : List String) : String :=
  match parseJ (2 * toks.length + 2) toks with
  | some (.obj f, []) =>
    if v = 3 || v = 0 || v > 6 then "skip"
    else
      let r := Migrate.Steps.stepFn (fun i => us.getD i []) id v (n, f)
      "ok " ++ toString r.1 ++ " " ++ " ".intercalate (rawJ (sortJ (.obj r.2)))
  | _ => "bad-document"

def handle : List String → Option String
  | "migstep" :: v :: n :: us :: toks =>
    match v.toNat?, n.toNat?, decList us with
    | some v, some n, some us => some (migstep v n us toks)
    | _, _, _ => some "bad-input"
  | "jsonrt" :: toks =>
    match parseJ (2 * toks.length + 2) toks with
    | some (j, []) => some ("ok " ++ " ".intercalate (encJ (rt j)))
    | _ => some "bad-document"
  | ["jsonstr", "enc", h] =>
    match decL h with
    | some s => some ("ok " ++ encL (JsonString.encode s))
    | none => some "bad-input"
  | ["jsonstr", "dec", h] =>
    match decL h with
    | some lit =>
      match JsonString.decode lit with
      | some v => some ("ok " ++ encL v)
      | none => some "err"
    | none => some "bad-input"
  | _ => none

end GoflowModel.Driver.Json
