import GoflowModel.Excellent.LegacyTable
import GoflowModel.Excellent.LegacyRefs
import GoflowModel.Gen.LegacyRefs
import GoflowModel.Driver.Util
/-
  legmigf <prefix form>  →  ok <hex of the migrated expression's text> | err
prefix form, comma separated:
  path:<hex root>[:<hex lookup>…]  num:<hex>  str:<hex>  T  F  neg  par
  bin:<EXPONENT|TIMES|DIVIDE|LT|LTE|GT|GTE|EQ|NEQ|AMPERSAND|PLUS|MINUS>
  ar:<dtn|dn0|dn1|dtt|rt|fb>:<p|m>          `+`/`-` in the form the type inference picked
  fn:<hex lower-cased legacy name>:<n>      followed by n parameters; migrated through the table
  legref <0|1 raw dates> <hex reference>    →  ok <hex of the migrated reference>
`err` when the expression is outside what the Go code accepts (`LWF`): a non-canonical number, a
call with a number of parameters its migrator refuses.
-/
namespace GoflowModel.Driver.LegacyFull
open GoflowModel GoflowModel.Driver GoflowModel.Expr GoflowModel.LegacyFull

def opOf : String → Option BinOp
  | "EXPONENT" => some .exp | "TIMES" => some .mul | "DIVIDE" => some .div | "PLUS" => some .add | "MINUS" => some .sub
  | "LT" => some .lt | "LTE" => some .lte | "GT" => some .gt | "GTE" => some .gte | "EQ" => some .eq | "NEQ" => some .neq
  | "AMPERSAND" => some .amp | _ => none

def kindOf : String → Option Kind
  | "dtn" => some .datetimeNumber | "dn0" => some (.dateNumber false) | "dn1" => some (.dateNumber true)
  | "dtt" => some .datetimeTime | "rt" => some .replaceTime | "fb" => some .fallback | _ => none

mutual
  def readL : Nat → List String → Option (LF × List String)
    | 0, _ => none
    | fuel + 1, t :: rest =>
      match t.splitOn ":" with
      | "path" :: r :: ls => do
        let r ← decL r
        let ls ← ls.mapM decL
        some (.path r ls, rest)
      | ["num", h] => (decL h).map fun n => (.num n, rest)
      | ["str", h] => (decL h).map fun n => (.str n, rest)
      | ["T"] => some (.bool true, rest)
      | ["F"] => some (.bool false, rest)
      | ["neg"] => (readL fuel rest).map fun (e, r) => (.neg e, r)
      | ["par"] => (readL fuel rest).map fun (e, r) => (.paren e, r)
      | ["bin", o] => do
        let o ← opOf o
        let (l, r1) ← readL fuel rest
        let (r, r2) ← readL fuel r1
        some (.bin o l r, r2)
      | ["ar", k, sign] => do
        let k ← kindOf k
        let (l, r1) ← readL fuel rest
        let (r, r2) ← readL fuel r1
        some (.arith k (sign == "m") l r, r2)
      | ["fn", name, n] => do
        let name ← decL name
        let (as, r) ← readArgs fuel (← n.toNat?) rest
        some (.fn (migOf (String.ofList name)) as, r)
      | _ => none
    | _, [] => none
  def readArgs : Nat → Nat → List String → Option (LFArgs × List String)
    | 0, _, _ => none
    | _ + 1, 0, ts => some (.nil, ts)
    | fuel + 1, n + 1, ts => do
      let (e, r1) ← readL fuel ts
      let (rest, r2) ← readArgs fuel n r1
      some (.cons e rest, r2)
end

mutual
  /-- `LWF`, decided -/
  def lwfB : LF → Bool
    | .path r _ => lowerName r == r
    | .num s => numValue s == s
    | .str _ => true
    | .bool _ => true
    | .neg e => lwfB e
    | .paren e => lwfB e
    | .bin _ l r => lwfB l && lwfB r
    | .arith _ _ l r => lwfB l && lwfB r
    | .fn m args => MigOK m args.length && lwfArgsB args
  def lwfArgsB : LFArgs → Bool
    | .nil => true
    | .cons e rest => lwfB e && lwfArgsB rest
end

def handle : List String → Option String
  | ["legmigf", form] => do
    let ts := form.splitOn ","
    match readL (2 * ts.length + 4) ts with
    | some (l, []) => if lwfB l then some ("ok " ++ encL (render (migF l))) else some "err"
    | _ => some "err"
  | ["legref", raw, h] => do
    -- a lower-cased legacy context reference → its migrated text (MigrateContextReference)
    let p ← decL h
    let segs := ((String.ofList p).splitOn ".").map String.toList
    let schemes := Gen.LegacyRefs.schemes.map String.toList
    some ("ok " ++ encL (render (LegacyRefs.migRef schemes (raw == "1") segs)))
  | _ => none

end GoflowModel.Driver.LegacyFull
