import GoflowModel.Excellent.Legacy
import GoflowModel.Driver.Util
/-
  legmig <prefix form>  →  ok <hex of the migrated expression's text> | err
prefix form, comma separated: ref:<hex new name> num:<hex> T F neg par bin:<EXPONENT|TIMES|DIVIDE|LT|LTE|GT|GTE|EQ|NEQ|AMPERSAND|PLUS|MINUS>
sum:<n> cat:<n> pow exp
-/
namespace GoflowModel.Driver.Legacy
open GoflowModel GoflowModel.Driver GoflowModel.Expr GoflowModel.Legacy

def opOf : String → Option BinOp
  | "EXPONENT" => some .exp | "TIMES" => some .mul | "DIVIDE" => some .div | "PLUS" => some .add | "MINUS" => some .sub
  | "LT" => some .lt | "LTE" => some .lte | "GT" => some .gt | "GTE" => some .gte | "EQ" => some .eq | "NEQ" => some .neq
  | "AMPERSAND" => some .amp | _ => none

mutual
  def readL : Nat → List String → Option (L × List String)
    | 0, _ => none
    | fuel + 1, t :: rest =>
      match t.splitOn ":" with
      | ["ref", h] => (decL h).map fun n => (.ref n, rest)
      | ["num", h] => (decL h).map fun n => (.num n, rest)
      | ["T"] => some (.bool true, rest)
      | ["F"] => some (.bool false, rest)
      | ["neg"] => (readL fuel rest).map fun (e, r) => (.neg e, r)
      | ["par"] => (readL fuel rest).map fun (e, r) => (.paren e, r)
      | ["bin", o] => do
        let o ← opOf o
        let (l, r1) ← readL fuel rest
        let (r, r2) ← readL fuel r1
        some (.bin o l r, r2)
      | ["pow"] => do
        let (a, r1) ← readL fuel rest
        let (b, r2) ← readL fuel r1
        some (.power a b, r2)
      | ["exp"] => (readL fuel rest).map fun (e, r) => (.exp e, r)
      | ["sum", n] => do
        let (as, r) ← readArgs fuel (← n.toNat?) rest
        some (.sum as, r)
      | ["cat", n] => do
        let (as, r) ← readArgs fuel (← n.toNat?) rest
        some (.concat as, r)
      | _ => none
    | _, [] => none
  def readArgs : Nat → Nat → List String → Option (LArgs × List String)
    | 0, _, _ => none
    | _, 0, _ => none
    | fuel + 1, 1, ts => (readL fuel ts).map fun (e, r) => (.one e, r)
    | fuel + 1, n + 2, ts => do
      let (e, r1) ← readL fuel ts
      let (rest, r2) ← readArgs fuel (n + 1) r1
      some (.cons e rest, r2)
end

def handle : List String → Option String
  | ["legmig", form] => do
    let ts := form.splitOn ","
    match readL (2 * ts.length + 4) ts with
    | some (l, []) => some ("ok " ++ encL (render (migE l)))
    | _ => some "err"
  | _ => none

end GoflowModel.Driver.Legacy
