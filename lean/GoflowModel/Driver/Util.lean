import GoflowModel.Basic.Hex
namespace GoflowModel.Driver

def decL (s : String) : Option (List Char) := (Hex.decode s).map String.toList
def encL (l : List Char) : String := Hex.enc (String.ofList l)

/-- comma-separated list of hex strings; `*` = absent, `-` = empty list... encoded as `[]` -/
def decList (s : String) : Option (List (List Char)) :=
  if s == "[]" then some [] else (s.splitOn ",").mapM decL

end GoflowModel.Driver
