import GoflowModel.Engine.Localize
import GoflowModel.Driver.Util
namespace GoflowModel.Driver.Localize
open GoflowModel.Localize GoflowModel.Driver

def parseTexts (s : String) : Option (List Text) := if s == "_" then some [] else (s.splitOn ",").mapM decL
def showTexts (t : List Text) : String := if t.isEmpty then "_" else ",".intercalate (t.map encL)
def parseLangs (s : String) : Option (List Lang) := if s == "_" then some [] else (s.splitOn ",").mapM (·.toNat?)
def parseOptLang (s : String) : Option (Option Lang) := if s == "-" then some none else s.toNat?.map some

def parseTrs (s : String) : Option (List (Lang × List Text)) :=
  if s == "_" then some [] else (s.splitOn ";").mapM fun e =>
    match e.splitOn "=" with
    | [l, t] => do some (← l.toNat?, ← parseTexts t)
    | _ => none

def parsePair (s : String) : Option (List Text × Lang) :=
  match s.splitOn "~" with
  | [t, l] => do some (← parseTexts t, ← l.toNat?)
  | _ => none

def handle : List String → Option String
  | ["languages", cl, allowed, fl] => do
    let c : Cfg := ⟨← parseOptLang cl, ← parseLangs allowed, ← fl.toNat?⟩
    some ("langs " ++ ",".intercalate ((languages c).map toString))
  | ["gettext", cl, allowed, fl, native, trs] => do
    let c : Cfg := ⟨← parseOptLang cl, ← parseLangs allowed, ← fl.toNat?⟩
    let native ← parseTexts native
    let trs ← parseTrs trs
    let r := getText c (fun l => trs.lookup l) native
    some s!"lang {r.2} texts {showTexts r.1}"
  | ["gettextonly", cl, allowed, fl, native, trs] => do
    let c : Cfg := ⟨← parseOptLang cl, ← parseLangs allowed, ← fl.toNat?⟩
    let native ← parseTexts native
    let trs ← parseTrs trs
    let r := getText c (fun l => trs.lookup l) native
    some s!"texts {showTexts r.1}"
  | ["msglang", t, a, q] => do
    let r := msgLang (← parsePair t) (← parsePair a) (← parsePair q)
    some (match r with | some l => s!"lang {l}" | none => "nolang")
  | ["saymsg", cl, allowed, fl, text, audio, trsT, trsA] => do
    let c : Cfg := ⟨← parseOptLang cl, ← parseLangs allowed, ← fl.toNat?⟩
    let text ← parseTexts text
    let audio ← parseTexts audio
    let tt ← parseTrs trsT
    let ta ← parseTrs trsA
    let r := sayMsg c (fun l => tt.lookup l) (fun l => ta.lookup l) (text.headD []) (audio.headD [])
    some s!"lang {r.2.2} text {showTexts [r.1]} audio {showTexts [r.2.1]}"
  | ["caseargs", base, loc] => do
    some ("args " ++ showTexts (caseArgs (← parseTexts base) (← parseTexts loc)))
  | _ => none

end GoflowModel.Driver.Localize
