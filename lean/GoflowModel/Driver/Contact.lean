import GoflowModel.Contact.Model
import GoflowModel.Driver.Util
import GoflowModel.Contact.Channel
/-
  cmod <contact> <modifier…>  →  <contact'> <events> <modified>
contact : name(hex)|lang|status|tz|urns|groups|fields|ticket ; lists `,`-separated or `_`;
          urn = identity~text ; field = key~value ; ticket = `-` | n
modifier: name <hex> | language <n> | status <s> | timezone <n> | urns <append|remove|set> <list, x = invalid>
          | groups <add|remove> <query group ids> <ids> | reeval <query ids> <matching ids> <query ids in asset order>
-/
namespace GoflowModel.Driver.Contact
open GoflowModel.Contact GoflowModel.Driver

def lst (s : String) (sep : String := ",") : List String := if s == "_" then [] else s.splitOn sep
def parseNats (s : String) (sep : String := ",") : Option (List Nat) := (lst s sep).mapM (·.toNat?)

def parseStatus : String → Option Status
  | "active" => some .active | "blocked" => some .blocked | "stopped" => some .stopped
  | "archived" => some .archived | _ => none
def showStatus : Status → String
  | .active => "active" | .blocked => "blocked" | .stopped => "stopped" | .archived => "archived"

def parsePairNat (s : String) : Option (Nat × Nat) :=
  match s.splitOn "~" with
  | [a, b] => do some (← a.toNat?, ← b.toNat?)
  | _ => none

def parseURN (s : String) : Option URN := (parsePairNat s).map fun p => ⟨p.1, p.2⟩

def parseContact (s : String) : Option Contact :=
  match s.splitOn "|" with
  | [n, l, st, tz, us, gs, fs, t] => do
    some { name := ← decL n, language := ← l.toNat?, status := ← parseStatus st, timezone := ← tz.toNat?,
           urns := ← (lst us).mapM parseURN, groups := ← parseNats gs, fields := ← (lst fs).mapM parsePairNat,
           ticket := ← (if t == "-" then some none else t.toNat?.map some), lastSeen := none }
  | _ => none

def showL (xs : List String) (sep : String := ",") : String := if xs.isEmpty then "_" else sep.intercalate xs
def showURN (u : URN) : String := s!"{u.identity}~{u.text}"

def sortPairs (fs : List (Nat × Nat)) : List (Nat × Nat) :=
  (fs.toArray.qsort fun a b => a.1 < b.1 || (a.1 == b.1 && a.2 < b.2)).toList

def showContact (c : Contact) : String :=
  "|".intercalate [encL c.name, toString c.language, showStatus c.status, toString c.timezone,
    showL (c.urns.map showURN), showL (c.groups.map toString),
    showL ((sortPairs c.fields).map fun p => s!"{p.1}~{p.2}"),
    match c.ticket with | none => "-" | some t => toString t]

def showEv : Ev → String
  | .nameChanged n => "name:" ++ encL n
  | .languageChanged l => s!"lang:{l}"
  | .statusChanged s => "status:" ++ showStatus s
  | .timezoneChanged t => s!"tz:{t}"
  | .urnsChanged us => "urns:" ++ showL (us.map showURN) ";"
  | .fieldChanged k v => s!"field:{k}:" ++ (match v with | none => "-" | some x => toString x)
  | .groupsChanged a r => "groups:" ++ showL (a.map toString) ";" ++ "/" ++ showL (r.map toString) ";"
  | .ticketOpened t => s!"ticket:{t}"
  | .error => "err"

def showOut (o : Out) : String :=
  s!"{showContact o.contact} {showL (o.events.map showEv)} {o.modified}"

def handle : List String → Option String
  | "cmod" :: c :: rest => do
    let c ← parseContact c
    match rest with
    | ["name", n] => do some (showOut (applyName c (← decL n)))
    | ["language", l] => do some (showOut (applyLanguage c (← l.toNat?)))
    | ["status", s] => do some (showOut (applyStatus c (← parseStatus s)))
    | ["timezone", t] => do some (showOut (applyTimezone c (← t.toNat?)))
    | ["urns", m, us] => do
      let m ← match m with
        | "append" => some URNsMod.append | "remove" => some .remove | "set" => some .set | _ => none
      let us ← (lst us).mapM fun x => if x == "x" then some none else (parseURN x).map some
      some (showOut (applyURNs c m us))
    | ["groups", w, q, gs] => do
      let q ← parseNats q
      some (showOut (applyGroups (fun g => q.contains g) c (w == "add") (← parseNats gs)))
    | ["reeval", q, m, order] => do
      let q ← parseNats q
      let m ← parseNats m
      let o := reevaluate (fun g => q.contains g) (fun g => m.contains g) (← parseNats order) c
      some s!"{showContact o.contact} {showL (o.events.map showEv)} {o.modified}"
    | _ => none
  | ["chanmod", ch, urns] => do
    -- chanmod <- | id:send(0/1):scheme,scheme…|_> <_ | scheme:rest:channel(-|id);…>  →  mod=<0|1> ev=<none|error|changed> urns=<…>   (ChannelModifier.Apply)
    let parseU := fun (t : String) => match t.splitOn ":" with
      | [s, r, c] => do
        let chn ← (if c == "-" then some none else c.toNat?.map some)
        some (⟨← s.toNat?, ← r.toNat?, chn⟩ : Contact.Channel.CURN)
      | _ => none
    let us ← (if urns == "_" then some [] else (urns.splitOn ";").mapM parseU)
    let chan ← (if ch == "-" then some none else
      match ch.splitOn ":" with
      | [i, snd, scs] => do
        let ss ← (if scs == "_" then some [] else (scs.splitOn ",").mapM (·.toNat?))
        some (some (⟨← i.toNat?, snd == "1", ss⟩ : Contact.Channel.Chan))
      | _ => none)
    let o := Contact.Channel.apply us chan
    let showU := fun (u : Contact.Channel.CURN) => s!"{u.scheme}:{u.rest}:" ++ (match u.channel with | none => "-" | some c => toString c)
    let ev := match o.events with
      | [] => "none"
      | [.error] => "error"
      | [.urnsChanged l] => if l == o.urns then "changed" else "changed-with-another-list"
      | _ => "several"
    some s!"mod={if o.modified then 1 else 0} ev={ev} urns={if o.urns.isEmpty then "_" else ";".intercalate (o.urns.map showU)}"
  | _ => none

end GoflowModel.Driver.Contact
