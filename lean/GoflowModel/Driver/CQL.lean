import GoflowModel.Driver.Util
import GoflowModel.Basic.Tables
import GoflowModel.ContactQL.Ast
import GoflowModel.ContactQL.Lexer
import GoflowModel.ContactQL.Parser
import GoflowModel.Gen.Grammar
namespace GoflowModel.Driver.CQL
open GoflowModel Driver ContactQL

def cls : Cls :=
  { letter := fun c => Tables.inRanges Gen.Grammar.antlrLetter c.toNat,
    digit := fun c => Tables.inRanges Gen.Grammar.antlrDigit c.toNat }

def kindStr : TokKind → String
  | .lparen => "LP" | .rparen => "RP" | .and => "AND" | .or => "OR" | .comparator => "CMP"
  | .string => "STR" | .property => "PROP" | .text => "TEXT" | .error => "ERR"

def opOf : String → Option Op
  | "eq" => some .eq | "neq" => some .neq | "contains" => some .contains | "gt" => some .gt
  | "lt" => some .lt | "gte" => some .gte | "lte" => some .lte | _ => none

def opStr : Op → String
  | .eq => "eq" | .neq => "neq" | .contains => "contains" | .gt => "gt" | .lt => "lt"
  | .gte => "gte" | .lte => "lte"

def ptOf : String → Option PropType
  | "attr" => some .attr | "urn" => some .urn | "field" => some .field | _ => none

def ptStr : PropType → String
  | .attr => "attr" | .urn => "urn" | .field => "field"

/-- prefix-notation AST: `c <ptype> <key> <op> <value>` | `and <n> …` | `or <n> …` -/
partial def parseNode : List String → Option (Node × List String)
  | "c" :: pt :: key :: op :: val :: rest => do
    let pt ← ptOf pt; let key ← decL key; let op ← opOf op; let val ← decL val
    some (.cond ⟨pt, key, op, val⟩, rest)
  | "and" :: n :: rest => do let (cs, rest) ← parseNodes n.toNat! rest; some (.comb true cs, rest)
  | "or" :: n :: rest => do let (cs, rest) ← parseNodes n.toNat! rest; some (.comb false cs, rest)
  | _ => none
where
  parseNodes : Nat → List String → Option (List Node × List String)
    | 0, rest => some ([], rest)
    | n + 1, rest => do
      let (x, rest) ← parseNode rest
      let (xs, rest) ← parseNodes n rest
      some (x :: xs, rest)

partial def showNode : Node → String
  | .cond c => s!"c {ptStr c.ptype} {encL c.key} {opStr c.op} {encL c.value}"
  | .comb a cs => (if a then "and " else "or ") ++ toString cs.length ++
      String.join (cs.map fun n => " " ++ showNode n)

/-- assign truth values to conditions in depth-first order from a bit string -/
partial def evalBits (bits : List Char) : Node → Bool × List Char
  | .cond _ => match bits with
    | b :: r => (b == '1', r)
    | [] => (false, [])
  | .comb a cs =>
    let (vals, rest) := cs.foldl (fun (acc : List Bool × List Char) n =>
      let (v, r) := evalBits acc.2 n
      (acc.1 ++ [v], r)) ([], bits)
    (if a then vals.all id else vals.any id, rest)

/-- the same as `evalBits` but through the model's `eval` with conditions numbered by a counter
encoded in their value (the harness numbers them) -/
def evalNumbered (bits : List Char) (n : Node) : Bool :=
  ContactQL.eval (fun c => match (String.ofList c.value).toNat? with
    | some i => bits.getD i '0' == '1'
    | none => false) n

def bitsOf (s : String) : List Bool := s.toList.map (· == '1')

def kindOf : String → Option TokKind
  | "LP" => some .lparen | "RP" => some .rparen | "AND" => some .and | "OR" => some .or | "CMP" => some .comparator
  | "STR" => some .string | "PROP" => some .property | "TEXT" => some .text | "ERR" => some .error | _ => none

def tokOf (s : String) : Option Tok :=
  match s.splitOn ":" with
  | [k, h] => do some ⟨← kindOf k, ← decL h⟩
  | _ => none

/-- `qparse <attribute names> <URN schemes> KIND:hex …` → the simplified tree | `nil` | `err`.  Implicit conditions come out as
the placeholder attribute `?` (the harness sends none). -/
def qparse (attrs schemes : List (List Char)) (toks : List Tok) : String :=
  let env : PEnv := { isAttr := fun k => attrs.contains k, isScheme := fun k => schemes.contains k,
                      implicit := fun v => ⟨.attr, ['?'], .eq, v⟩, lower := Tables.asciiLower }
  match parseQuery env toks with
  | none => "err"
  | some none => "nil"
  | some (some n) => showNode n

def handle : List String → Option String
  | "qparse" :: attrs :: schemes :: toks => do
    let attrs ← decList attrs
    let schemes ← decList schemes
    let toks ← toks.mapM tokOf
    some (qparse attrs schemes toks)
  | ["qlex", s] => do
    let s ← decL s
    let toks := lexAll cls s
    some (" ".intercalate ("toks" :: toks.map fun t => kindStr t.kind ++ ":" ++ encL t.text))
  | "qprint" :: ast => do
    let (n, _) ← parseNode ast
    some ("ok " ++ encL (stringify Tables.isPrint (some n)))
  | "qsimplify" :: ast => do
    let (n, _) ← parseNode ast
    some (match simplify n with
      | none => "nil"
      | some m => showNode m)
  | "qeval" :: bits :: ast => do
    let (n, _) ← parseNode ast
    some (toString (evalNumbered bits.toList n))
  | ["qcombine", op, empty, results] => do
    let op ← opOf op
    some (toString (combineVals op (empty == "1") (if results == "-" then [] else bitsOf results)))
  | ["qnum", obj, op, qv] => do
    let op ← opOf op
    some (match numCmp obj.toInt! op qv.toInt! with | some b => toString b | none => "panic")
  | ["qdate", obj, op, s, e] => do
    let op ← opOf op
    some (match dateCmp obj.toInt! op s.toInt! e.toInt! with | some b => toString b | none => "panic")
  | ["qisnumber", s] => do
    let s ← decL s
    some (toString (isNumber s))
  | _ => none

end GoflowModel.Driver.CQL
