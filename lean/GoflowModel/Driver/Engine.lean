import GoflowModel.Engine.Model
import GoflowModel.Engine.Truncate
import GoflowModel.Engine.Persist
import GoflowModel.Driver.Util
/-
Line protocol for the engine model:

  eng <assets> <opts> <call> <session> <oracle>   →   <class> <session> <sprint>

assets : flows joined by `/`; flow = `X` (missing) | `E` (no nodes) | nodes joined by `;`;
         node = `<exits>,<router 0|1>,<wait n|m0|m1|d>`; exits = `_` | dests joined by `.` (`-` = none)
opts   : `<maxSteps>,<maxResumes>`
call   : `start` | `resume:msg` | `resume:timeout` | `resume:expiration` | `resume:dial`
session: `-` | `<status a|w|c|f>|run|run…`; run = `flow,parent,status,exited,path,events`;
         path = `_` | steps joined `.`, step = `node:exit`; events = `_` | `kind:w:r:i` joined `.`
oracle : items joined by `+`: `I<err>:<flow>:<evks>`, `A<evks>:<evks>`,
         `V<r>:<i>:<evks>:<pushed>:<res g|i|f|d>:<begin>:<route>`, `L<r>:<i>:<evks>:<route>`;
         evks = `_` | `kind~w` joined `.`; pushed = `-` | `flow~term`; route = `g` | `n` | `e<idx>` | `e-`
-/
namespace GoflowModel.Driver.Engine
open GoflowModel.Engine

def optNat (s : String) : Option (Option Nat) := if s == "-" then some none else s.toNat?.map some

def listOf (s : String) (sep : String) : List String := if s == "_" then [] else s.splitOn sep

def parseNode (s : String) : Option Node :=
  match s.splitOn "," with
  | [ex, r, w] => do
    let exits ← (listOf ex ".").mapM optNat
    let wait ← match w with
      | "n" => some none | "m0" => some (some (WaitKind.msg false)) | "m1" => some (some (.msg true))
      | "d" => some (some .dial) | _ => none
    some ⟨exits, r == "1", wait⟩
  | _ => none

def parseFlow (s : String) : Option (Option Flow) :=
  if s == "X" then some none
  else if s == "E" then some (some ⟨[]⟩)
  else do let ns ← (s.splitOn ";").mapM parseNode; some (some ⟨ns⟩)

def parseAssets (s : String) : Option Assets := (s.splitOn "/").mapM parseFlow

def parseOpts (s : String) : Option Opts :=
  match s.splitOn "," with
  | [a, b] => do some ⟨← a.toInt?, ← b.toInt?⟩
  | _ => none

def parseRunStatus : String → Option RunStatus
  | "a" => some .active | "w" => some .waiting | "c" => some .completed | "f" => some .failed
  | "x" => some .expired | _ => none

def showRunStatus : RunStatus → String
  | .active => "a" | .waiting => "w" | .completed => "c" | .failed => "f" | .expired => "x"

def parseSessStatus : String → Option SessStatus
  | "a" => some .active | "w" => some .waiting | "c" => some .completed | "f" => some .failed | _ => none

def showSessStatus : SessStatus → String
  | .active => "a" | .waiting => "w" | .completed => "c" | .failed => "f"

def parseStepRef (r i : String) : Option (Option StepRef) :=
  if r == "-" then some none else do some (some ⟨← r.toNat?, ← i.toNat?⟩)

def parseEv (s : String) : Option Ev :=
  match s.splitOn ":" with
  | [k, w, r, i] => do some ⟨← k.toNat?, w == "1", ← parseStepRef r i⟩
  | _ => none

def parseStep (s : String) : Option Step :=
  match s.splitOn ":" with
  | [n, e] => do some ⟨← n.toNat?, ← optNat e⟩
  | _ => none

def parseRun (s : String) : Option Run :=
  match s.splitOn "," with
  | [f, p, st, ex, path, evs] => do
    some ⟨← f.toNat?, ← optNat p, ← parseRunStatus st, ex == "1",
      ← (listOf path ".").mapM parseStep, ← (listOf evs ".").mapM parseEv⟩
  | _ => none

def parseSession (s : String) : Option Session :=
  if s == "-" then some emptySession else
  match s.splitOn "|" with
  | st :: runs => do some ⟨← runs.mapM parseRun, ← parseSessStatus st, none⟩
  | _ => none

def showOptNat : Option Nat → String
  | none => "-" | some n => toString n

def showEv (e : Ev) : String :=
  s!"{e.kind}:{if e.isWait then 1 else 0}:" ++ (match e.step with | none => "-:-" | some r => s!"{r.run}:{r.idx}")

def showList (xs : List String) (sep : String) : String := if xs.isEmpty then "_" else sep.intercalate xs

def showRun (r : Run) : String :=
  s!"{r.flow},{showOptNat r.parent},{showRunStatus r.status},{if r.exited then 1 else 0}," ++
  showList (r.path.map fun t => s!"{t.node}:{showOptNat t.exit}") "." ++ "," ++ showList (r.events.map showEv) "."

def showSession (s : Session) : String :=
  "|".intercalate (showSessStatus s.status :: s.runs.map showRun)

def showSprint (sp : List SprintEv) : String :=
  showList (sp.map fun e => showOptNat e.run ++ ":" ++ showEv e.ev) "."

def parseEvK (s : String) : Option EvK :=
  match s.splitOn "~" with
  | [k, w] => do some ⟨← k.toNat?, w == "1"⟩
  | _ => none

def parseEvKs (s : String) : Option (List EvK) := (listOf s ".").mapM parseEvK

def parseRoute (s : String) : Option RouteChoice :=
  if s == "g" then some .goErr else if s == "n" then some .noCategory
  else if s == "e-" then some (.exit none)
  else if s.startsWith "e" then (s.drop 1).toString.toNat?.map fun n => .exit (some n)
  else none

def parsePushed (s : String) : Option (Option Pushed) :=
  if s == "-" then some none else
  match s.splitOn "~" with
  | [f, t] => do some (some ⟨← f.toNat?, t == "1"⟩)
  | _ => none

def parseRes : String → Option ActionsResult
  | "g" => some .goErr | "i" => some .initErr | "f" => some .failed | "d" => some .done | _ => none

structure OrcData where
  initEvents : List EvK := []
  initErr : Bool := false
  initFlow : Nat := 0
  applyBase : List EvK := []
  applyGroups : List EvK := []
  visits : List ((Nat × Nat) × VisitChoice) := []
  lates : List ((Nat × Nat) × RouteRec) := []

def parseOracleItem (d : OrcData) (item : String) : Option OrcData :=
  let body := (item.drop 1).toString
  let parts := body.splitOn ":"
  if item.startsWith "I" then
    match parts with
    | [err, flow, evks] => do some { d with initErr := err == "1", initFlow := ← flow.toNat?, initEvents := ← parseEvKs evks }
    | _ => none
  else if item.startsWith "A" then
    match parts with
    | [b, g] => do some { d with applyBase := ← parseEvKs b, applyGroups := ← parseEvKs g }
    | _ => none
  else if item.startsWith "V" then
    match parts with
    | [r, i, evks, pushed, res, begin, route] => do
      let vc : VisitChoice := ⟨← parseEvKs evks, ← parsePushed pushed, ← parseRes res, begin == "1", ← parseRoute route⟩
      some { d with visits := ((← r.toNat?, ← i.toNat?), vc) :: d.visits }
    | _ => none
  else if item.startsWith "L" then
    match parts with
    | [r, i, evks, route] => do
      some { d with lates := ((← r.toNat?, ← i.toNat?), ⟨← parseEvKs evks, ← parseRoute route⟩) :: d.lates }
    | _ => none
  else none

def parseOracle (s : String) : Option Oracle := do
  let d ← (listOf s "+").foldlM parseOracleItem {}
  some { initEvents := d.initEvents, initErr := d.initErr, initFlow := d.initFlow,
         applyBase := d.applyBase, applyGroups := d.applyGroups,
         visit := fun r i => d.visits.lookup (r, i), late := fun r i => d.lates.lookup (r, i) }

def parseResume : String → Option ResumeKind
  | "resume:msg" => some .msg | "resume:timeout" => some .timeout
  | "resume:expiration" => some .expiration | "resume:dial" => some .dial | _ => none

def showResult : Result → String
  | .ok st => s!"ok {showSession st.s} {showSprint st.sp}"
  | .goErr st => s!"goerr {showSession st.s} {showSprint st.sp}"
  | .engineErr c st => s!"eng{c} {showSession st.s} {showSprint st.sp}"
  | .tapeErr w => s!"tape{w} - -"
  | .outOfFuel => "fuel - -"

def handle : List String → Option String
  | ["eng", assets, opts, call, session, oracle] => do
    let a ← parseAssets assets
    let o ← parseOpts opts
    let orc ← parseOracle oracle
    if call == "start" then some (showResult (start a o orc))
    else do
      let k ← parseResume call
      let s ← parseSession session
      some (showResult (resume a o orc s k))
  | ["prt", session] => do
    let s ← parseSession session
    some (match restore (persist s) with
      | some s' => "ok " ++ showSession s'
      | none => "fail")
  | ["trunc", n, s] => do
    let s ← Driver.decL s
    some ("ok " ++ Driver.encL (Truncate.truncate s n.toNat!))
  | ["trunce", n, s] => do
    let s ← Driver.decL s
    some (match Truncate.truncateEllipsis s n.toNat! with
      | some t => "ok " ++ Driver.encL t
      | none => "panic")
  | _ => none

end GoflowModel.Driver.Engine
