import GoflowModel.Excellent.Expr
/-!
A fuel-free, relational reading of the operator core of the parser — atoms that are plain
references, `true`/`false`/`null`, negation, parentheses and the twelve binary operators — and
the proof that whatever it derives, the executable parser computes (given enough fuel).
-/
namespace GoflowModel.Expr

inductive NT where
  | expr (p : Nat)
  | ops (p : Nat) (acc : Expr)
  | primary

/-- the next token cannot continue an atom (suffix) nor turn `( name )` into an anonymous function -/
def quiet : List Tok → Prop
  | .dot :: _ => False
  | .lbrack :: _ => False
  | .lparen :: _ => False
  | .arrow :: _ => False
  | _ => True

/-- the operator loop at level `p` stops here -/
def stops (p : Nat) : List Tok → Prop
  | .op o :: _ => ¬ p ≤ o.prec
  | _ => True

inductive Parses : NT → List Tok → Expr → List Tok → Prop where
  | expr {p ts l r1 e r2} : Parses .primary ts l r1 → Parses (.ops p l) r1 e r2 → Parses (.expr p) ts e r2
  | step {p l o ts r ts' e rest} : p ≤ o.prec → Parses (.expr (o.prec + 1)) ts r ts' →
      Parses (.ops p (.bin o l r)) ts' e rest → Parses (.ops p l) (.op o :: ts) e rest
  | stop {p l ts} : stops p ts → Parses (.ops p l) ts l ts
  | neg {ts e rest} : Parses (.expr 13) ts e rest → Parses .primary (.op .sub :: ts) (.neg e) rest
  | tru {rest} : Parses .primary (.tru :: rest) (.bool true) rest
  | fls {rest} : Parses .primary (.fls :: rest) (.bool false) rest
  | null {rest} : Parses .primary (.null :: rest) .null rest
  | int {s rest} : Parses .primary (.int s :: rest) (.num (numValue s)) rest
  | dec {s rest} : Parses .primary (.dec s :: rest) (.num (numValue s)) rest
  | ref {n rest} : quiet rest → Parses .primary (.name n :: rest) (.ref n) rest
  | paren {ts e rest} : lamHead (.lparen :: ts) = none → Parses (.expr 0) ts e (.rparen :: rest) → quiet rest →
      Parses .primary (.lparen :: ts) (.paren e) rest

/-- what the executable parser computes for a nonterminal -/
def run (fuel : Nat) : NT → List Tok → Option (Expr × List Tok)
  | .expr p, ts => parseExpr fuel p ts
  | .ops p acc, ts => parseOps fuel p acc ts
  | .primary, ts => parsePrimary fuel ts

theorem parseSuffix_quiet (fuel : Nat) (a : Expr) (rest : List Tok) (h : quiet rest) :
    parseSuffix (fuel + 1) a rest = some (a, rest) := by
  unfold parseSuffix
  match rest, h with
  | [], _ => rfl
  | .dot :: _, h => exact absurd h (by simp [quiet])
  | .lbrack :: _, h => exact absurd h (by simp [quiet])
  | .lparen :: _, h => exact absurd h (by simp [quiet])
  | .arrow :: _, _ => rfl
  | .comma :: _, _ => rfl
  | .rparen :: _, _ => rfl
  | .rbrack :: _, _ => rfl
  | .op _ :: _, _ => rfl
  | .text _ :: _, _ => rfl
  | .int _ :: _, _ => rfl
  | .dec _ :: _, _ => rfl
  | .tru :: _, _ => rfl
  | .fls :: _, _ => rfl
  | .null :: _, _ => rfl
  | .name _ :: _, _ => rfl
  | .error :: _, _ => rfl

/-- **Soundness of the relational reading**: with enough fuel the executable parser returns
exactly what the relation derives. -/
theorem run_of_parses {nt : NT} {ts : List Tok} {e : Expr} {rest : List Tok} (h : Parses nt ts e rest) :
    ∃ f0, ∀ f, f0 ≤ f → run f nt ts = some (e, rest) := by
  induction h with
  | @expr p ts l r1 e r2 _ _ ih1 ih2 =>
    obtain ⟨a, ha⟩ := ih1
    obtain ⟨b, hb⟩ := ih2
    refine ⟨a + b + 1, fun f hf => ?_⟩
    obtain ⟨g, rfl⟩ : ∃ g, f = g + 1 := ⟨f - 1, by omega⟩
    simp only [run, parseExpr] at ha hb ⊢
    rw [ha g (by omega)]
    exact hb g (by omega)
  | @step p l o ts r ts' e rest hp _ _ ih1 ih2 =>
    obtain ⟨a, ha⟩ := ih1
    obtain ⟨b, hb⟩ := ih2
    refine ⟨a + b + 1, fun f hf => ?_⟩
    obtain ⟨g, rfl⟩ : ∃ g, f = g + 1 := ⟨f - 1, by omega⟩
    simp only [run, parseOps, hp, if_true] at ha hb ⊢
    rw [ha g (by omega)]
    exact hb g (by omega)
  | @stop p l ts hs =>
    refine ⟨1, fun f hf => ?_⟩
    obtain ⟨g, rfl⟩ : ∃ g, f = g + 1 := ⟨f - 1, by omega⟩
    simp only [run, parseOps]
    match ts, hs with
    | .op o :: tl, hs => simp only [stops] at hs; simp [hs]
    | [], _ => rfl
    | .comma :: _, _ => rfl
    | .lparen :: _, _ => rfl
    | .rparen :: _, _ => rfl
    | .lbrack :: _, _ => rfl
    | .rbrack :: _, _ => rfl
    | .dot :: _, _ => rfl
    | .arrow :: _, _ => rfl
    | .text _ :: _, _ => rfl
    | .int _ :: _, _ => rfl
    | .dec _ :: _, _ => rfl
    | .tru :: _, _ => rfl
    | .fls :: _, _ => rfl
    | .null :: _, _ => rfl
    | .name _ :: _, _ => rfl
    | .error :: _, _ => rfl
  | @neg ts e rest _ ih =>
    obtain ⟨a, ha⟩ := ih
    refine ⟨a + 1, fun f hf => ?_⟩
    obtain ⟨g, rfl⟩ : ∃ g, f = g + 1 := ⟨f - 1, by omega⟩
    simp only [run, parsePrimary] at ha ⊢
    rw [ha g (by omega)]
  | tru => exact ⟨1, fun f hf => by obtain ⟨g, rfl⟩ : ∃ g, f = g + 1 := ⟨f - 1, by omega⟩; simp [run, parsePrimary]⟩
  | fls => exact ⟨1, fun f hf => by obtain ⟨g, rfl⟩ : ∃ g, f = g + 1 := ⟨f - 1, by omega⟩; simp [run, parsePrimary]⟩
  | null => exact ⟨1, fun f hf => by obtain ⟨g, rfl⟩ : ∃ g, f = g + 1 := ⟨f - 1, by omega⟩; simp [run, parsePrimary]⟩
  | int => exact ⟨1, fun f hf => by obtain ⟨g, rfl⟩ : ∃ g, f = g + 1 := ⟨f - 1, by omega⟩; simp [run, parsePrimary]⟩
  | dec => exact ⟨1, fun f hf => by obtain ⟨g, rfl⟩ : ∃ g, f = g + 1 := ⟨f - 1, by omega⟩; simp [run, parsePrimary]⟩
  | @ref n rest hq =>
    refine ⟨3, fun f hf => ?_⟩
    obtain ⟨g, rfl⟩ : ∃ g, f = g + 3 := ⟨f - 3, by omega⟩
    simp only [run, parsePrimary, lamHead, parseAtom]
    exact parseSuffix_quiet g (.ref n) rest hq
  | @paren ts e rest hl _ hq ih =>
    obtain ⟨a, ha⟩ := ih
    refine ⟨a + 3, fun f hf => ?_⟩
    obtain ⟨g, rfl⟩ : ∃ g, f = g + 3 := ⟨f - 3, by omega⟩
    simp only [run] at ha ⊢
    simp only [parsePrimary, hl, parseAtom]
    rw [ha (g + 1) (by omega)]
    exact parseSuffix_quiet g (.paren e) rest hq

end GoflowModel.Expr

namespace GoflowModel.Expr

/-- the level an expression offers to its surroundings: its operator's for a binary node, 13 for a
negation, 14 for everything that is an atom or a literal -/
def level : Expr → Nat
  | .bin o _ _ => o.prec
  | .neg _ => 13
  | _ => 14

/-- The operator core as the parser produces it: references (printed lower-case), `true`, `false`,
`null`, negation of something at level 13 or more, parentheses around anything, and binary nodes
whose left operand is at the operator's level or more and whose right operand is strictly above
it (left associativity). -/
inductive Core : Expr → Prop where
  | ref {n} : lowerName n = n → Core (.ref n)
  | tru : Core (.bool true)
  | fls : Core (.bool false)
  | null : Core .null
  | num {s} : numValue s = s → Core (.num s)
  | neg {e} : Core e → 13 ≤ level e → Core (.neg e)
  | paren {e} : Core e → Core (.paren e)
  | bin {o l r} : Core l → Core r → o.prec ≤ level l → o.prec + 1 ≤ level r → Core (.bin o l r)

theorem prec_le_12 (o : BinOp) : o.prec ≤ 12 := by cases o <;> simp [BinOp.prec]
theorem prec_ge_7 (o : BinOp) : 7 ≤ o.prec := by cases o <;> simp [BinOp.prec]

/-- what may follow the tokens of a core expression inside parentheses -/
def tailOK : List Tok → Prop
  | [] => True
  | .op _ :: _ => True
  | .rparen :: r => quiet r
  | _ => False

theorem lamHead_core {e : Expr} (h : Core e) : ∀ T, tailOK T → lamHead (.lparen :: (toks e ++ T)) = none := by
  induction h with
  | @ref n hn =>
    intro T hT
    simp only [toks, List.cons_append, List.nil_append, lamHead]
    match T, hT with
    | [], _ => simp [lamHead.names]
    | .op _ :: _, _ => simp [lamHead.names]
    | .rparen :: r, hq =>
      simp only [tailOK] at hq
      match r, hq with
      | [], _ => simp [lamHead.names]
      | .arrow :: _, hq => exact absurd hq (by simp [quiet])
      | .dot :: _, hq => exact absurd hq (by simp [quiet])
      | .lbrack :: _, hq => exact absurd hq (by simp [quiet])
      | .lparen :: _, hq => exact absurd hq (by simp [quiet])
      | .comma :: _, _ => simp [lamHead.names]
      | .rparen :: _, _ => simp [lamHead.names]
      | .rbrack :: _, _ => simp [lamHead.names]
      | .op _ :: _, _ => simp [lamHead.names]
      | .text _ :: _, _ => simp [lamHead.names]
      | .int _ :: _, _ => simp [lamHead.names]
      | .dec _ :: _, _ => simp [lamHead.names]
      | .tru :: _, _ => simp [lamHead.names]
      | .fls :: _, _ => simp [lamHead.names]
      | .null :: _, _ => simp [lamHead.names]
      | .name _ :: _, _ => simp [lamHead.names]
      | .error :: _, _ => simp [lamHead.names]
  | tru => intro T _; simp [toks, lamHead]
  | fls => intro T _; simp [toks, lamHead]
  | null => intro T _; simp [toks, lamHead]
  | num _ => intro T _; simp only [toks]; split <;> simp [lamHead]
  | neg _ _ _ => intro T _; simp [toks, lamHead]
  | paren _ _ => intro T _; simp [toks, lamHead]
  | @bin o l r _ _ _ _ ihl _ =>
    intro T _
    have : toks (.bin o l r) ++ T = toks l ++ (.op o :: (toks r ++ T)) := by simp [toks, List.append_assoc]
    rw [this]
    exact ihl _ (by simp [tailOK])

/-- **Completeness of the relational reading on printed core expressions** (continuation form):
the tokens of `e`, followed by anything that does not continue an atom and whose leading operator
(if any) does not bind tighter than `e`'s own level, parse at any level up to `e`'s as `e` and then
whatever the operator loop makes of the rest. -/
theorem parses_toks {e : Expr} (h : Core e) :
    ∀ (p : Nat) (rest : List Tok) (e' : Expr) (rest' : List Tok), p ≤ level e → quiet rest →
      (∀ q tl, rest = .op q :: tl → q.prec ≤ level e) →
      Parses (.ops p e) rest e' rest' → Parses (.expr p) (toks e ++ rest) e' rest' := by
  induction h with
  | @ref n hn =>
    intro p rest e' rest' _ hq _ hk
    simp only [toks, hn, List.cons_append, List.nil_append]
    exact .expr (.ref hq) hk
  | tru => intro p rest e' rest' _ _ _ hk; exact .expr .tru hk
  | fls => intro p rest e' rest' _ _ _ hk; exact .expr .fls hk
  | null => intro p rest e' rest' _ _ _ hk; exact .expr .null hk
  | @num s hs =>
    intro p rest e' rest' _ _ _ hk
    simp only [toks]
    split
    · have h : Parses .primary (.dec s :: rest) (.num (numValue s)) rest := .dec
      rw [hs] at h
      exact .expr h hk
    · have h : Parses .primary (.int s :: rest) (.num (numValue s)) rest := .int
      rw [hs] at h
      exact .expr h hk
  | @neg e1 _ hl ih =>
    intro p rest e' rest' _ hq _ hk
    simp only [toks, List.cons_append]
    refine .expr (.neg (ih 13 rest e1 rest hl hq ?_ (.stop ?_))) hk
    · intro q tl _; have := prec_le_12 q; omega
    · match rest with
      | .op o :: _ => simp only [stops]; have := prec_le_12 o; omega
      | [] => trivial
      | .comma :: _ => trivial
      | .lparen :: _ => trivial
      | .rparen :: _ => trivial
      | .lbrack :: _ => trivial
      | .rbrack :: _ => trivial
      | .dot :: _ => trivial
      | .arrow :: _ => trivial
      | .text _ :: _ => trivial
      | .int _ :: _ => trivial
      | .dec _ :: _ => trivial
      | .tru :: _ => trivial
      | .fls :: _ => trivial
      | .null :: _ => trivial
      | .name _ :: _ => trivial
      | .error :: _ => trivial
  | @paren e1 hc ih =>
    intro p rest e' rest' _ hq _ hk
    have hts : toks (.paren e1) ++ rest = .lparen :: (toks e1 ++ .rparen :: rest) := by simp [toks, List.append_assoc]
    rw [hts]
    refine .expr (.paren (lamHead_core hc _ (by simpa [tailOK] using hq)) (ih 0 (.rparen :: rest) e1 (.rparen :: rest) (Nat.zero_le _) (by simp [quiet]) ?_ (.stop (by simp [stops]))) hq) hk
    intro q tl hh; cases hh
  | @bin o l r _ _ hl hr ihl ihr =>
    intro p rest e' rest' hp hq hedge hk
    have hts : toks (.bin o l r) ++ rest = toks l ++ (.op o :: (toks r ++ rest)) := by simp [toks, List.append_assoc]
    rw [hts]
    simp only [level] at hp hedge
    apply ihl p _ e' rest' (by omega) (by simp [quiet])
    · intro q tl hh; cases hh; exact hl
    · refine .step hp (ihr (o.prec + 1) rest r rest hr hq ?_ (.stop ?_)) hk
      · intro q tl hh; have := hedge q tl hh; omega
      · match rest, hedge with
        | .op q :: tl, hedge => simp only [stops]; have := hedge q tl rfl; omega
        | [], _ => trivial
        | .comma :: _, _ => trivial
        | .lparen :: _, _ => trivial
        | .rparen :: _, _ => trivial
        | .lbrack :: _, _ => trivial
        | .rbrack :: _, _ => trivial
        | .dot :: _, _ => trivial
        | .arrow :: _, _ => trivial
        | .text _ :: _, _ => trivial
        | .int _ :: _, _ => trivial
        | .dec _ :: _, _ => trivial
        | .tru :: _, _ => trivial
        | .fls :: _, _ => trivial
        | .null :: _, _ => trivial
        | .name _ :: _, _ => trivial
        | .error :: _, _ => trivial

end GoflowModel.Expr
