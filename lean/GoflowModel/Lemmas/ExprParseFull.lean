import GoflowModel.Excellent.Expr
/-!
A fuel-free, relational reading of the **whole** expression parser — operators, negation,
literals, anonymous functions, atoms with their suffix loop (dot lookups, index lookups, calls) and
parameter lists — and the proof that whatever it derives, the executable parser computes (given
enough fuel).  Expressions and parameter lists are derived by one relation over the sum `Res`, so
that ordinary induction applies.
-/
namespace GoflowModel.Expr.Full
open GoflowModel.Expr

inductive Res where
  | e (x : Expr)
  | a (x : Args)

inductive NT where
  | expr (p : Nat)
  | ops (p : Nat) (acc : Expr)
  | primary
  | suffix (acc : Expr)
  | args

/-- the operator loop at level `p` stops here -/
def stops (p : Nat) : List Tok → Prop
  | .op o :: _ => ¬ p ≤ o.prec
  | _ => True

/-- the suffix loop of `atom` stops here -/
def quietS : List Tok → Prop
  | .dot :: .name _ :: _ => False
  | .dot :: .int _ :: _ => False
  | .lbrack :: _ => False
  | .lparen :: _ => False
  | _ => True

inductive Parses : NT → List Tok → Res → List Tok → Prop where
  | expr {p ts l r1 e r2} : Parses .primary ts (.e l) r1 → Parses (.ops p l) r1 (.e e) r2 → Parses (.expr p) ts (.e e) r2
  | step {p l o ts r ts' e rest} : p ≤ o.prec → Parses (.expr (o.prec + 1)) ts (.e r) ts' →
      Parses (.ops p (.bin o l r)) ts' (.e e) rest → Parses (.ops p l) (.op o :: ts) (.e e) rest
  | stop {p l ts} : stops p ts → Parses (.ops p l) ts (.e l) ts
  | neg {ts e rest} : Parses (.expr 13) ts (.e e) rest → Parses .primary (.op .sub :: ts) (.e (.neg e)) rest
  | tru {rest} : Parses .primary (.tru :: rest) (.e (.bool true)) rest
  | fls {rest} : Parses .primary (.fls :: rest) (.e (.bool false)) rest
  | null {rest} : Parses .primary (.null :: rest) (.e .null) rest
  | int {s rest} : Parses .primary (.int s :: rest) (.e (.num (numValue s))) rest
  | dec {s rest} : Parses .primary (.dec s :: rest) (.e (.num (numValue s))) rest
  | text {raw v rest} : Quote.literalValue raw = some v → Parses .primary (.text raw :: rest) (.e (.text v)) rest
  | lam {ts args rest b rest'} : lamHead (.lparen :: ts) = some (args, rest) → Parses (.expr 6) rest (.e b) rest' →
      Parses .primary (.lparen :: ts) (.e (.lam args b)) rest'
  | atomRef {n ts e rest} : Parses (.suffix (.ref n)) ts (.e e) rest → Parses .primary (.name n :: ts) (.e e) rest
  | atomParen {ts e1 ts' e rest} : lamHead (.lparen :: ts) = none → Parses (.expr 0) ts (.e e1) (.rparen :: ts') →
      Parses (.suffix (.paren e1)) ts' (.e e) rest → Parses .primary (.lparen :: ts) (.e e) rest
  | sfxDotName {a n ts e rest} : Parses (.suffix (.dot a n)) ts (.e e) rest → Parses (.suffix a) (.dot :: .name n :: ts) (.e e) rest
  | sfxDotInt {a n ts e rest} : Parses (.suffix (.dot a n)) ts (.e e) rest → Parses (.suffix a) (.dot :: .int n :: ts) (.e e) rest
  | sfxIdx {a ts i ts' e rest} : Parses (.expr 0) ts (.e i) (.rbrack :: ts') → Parses (.suffix (.idx a i)) ts' (.e e) rest →
      Parses (.suffix a) (.lbrack :: ts) (.e e) rest
  | sfxCall0 {a ts e rest} : Parses (.suffix (.call a .nil)) ts (.e e) rest → Parses (.suffix a) (.lparen :: .rparen :: ts) (.e e) rest
  | sfxCall {a ts ps ts' e rest} : (∀ t, ts ≠ .rparen :: t) → Parses .args ts (.a ps) (.rparen :: ts') →
      Parses (.suffix (.call a ps)) ts' (.e e) rest → Parses (.suffix a) (.lparen :: ts) (.e e) rest
  | sfxStop {a ts} : quietS ts → Parses (.suffix a) ts (.e a) ts
  | argsOne {ts e rest} : Parses (.expr 0) ts (.e e) rest → (∀ t, rest ≠ .comma :: t) → Parses .args ts (.a (.cons e .nil)) rest
  | argsMore {ts e ts' more rest} : Parses (.expr 0) ts (.e e) (.comma :: ts') → Parses .args ts' (.a more) rest →
      Parses .args ts (.a (.cons e more)) rest

/-- what the executable parser computes for a nonterminal -/
def Holds (f : Nat) : NT → List Tok → Res → List Tok → Prop
  | .expr p, ts, .e e, rest => parseExpr f p ts = some (e, rest)
  | .ops p acc, ts, .e e, rest => parseOps f p acc ts = some (e, rest)
  | .primary, ts, .e e, rest => parsePrimary f ts = some (e, rest)
  | .suffix a, ts, .e e, rest => parseSuffix f a ts = some (e, rest)
  | .args, ts, .a ps, rest => parseArgs f ts = some (ps, rest)
  | _, _, _, _ => False

theorem parseOps_stops (f p : Nat) (l : Expr) (ts : List Tok) (h : stops p ts) :
    parseOps (f + 1) p l ts = some (l, ts) := by
  unfold parseOps
  cases ts with
  | nil => rfl
  | cons t tl =>
    cases t <;> first
      | rfl
      | (simp only [stops] at h; simp [h])

theorem parseSuffix_quietS (f : Nat) (a : Expr) (ts : List Tok) (h : quietS ts) :
    parseSuffix (f + 1) a ts = some (a, ts) := by
  unfold parseSuffix
  cases ts with
  | nil => rfl
  | cons t tl =>
    cases t with
    | dot =>
      cases tl with
      | nil => rfl
      | cons t2 tl2 =>
        cases t2 with
        | name n => exact absurd h (by simp [quietS])
        | int n => exact absurd h (by simp [quietS])
        | _ => rfl
    | lbrack => exact absurd h (by simp [quietS])
    | lparen => exact absurd h (by simp [quietS])
    | _ => rfl

/-- **Soundness of the relational reading**: with enough fuel the executable parser returns
exactly what the relation derives. -/
theorem holds_of_parses {nt : NT} {ts : List Tok} {r : Res} {rest : List Tok} (h : Parses nt ts r rest) :
    ∃ f0, ∀ f, f0 ≤ f → Holds f nt ts r rest := by
  induction h with
  | @expr p ts l r1 e r2 _ _ ih1 ih2 =>
    obtain ⟨a, ha⟩ := ih1
    obtain ⟨b, hb⟩ := ih2
    refine ⟨a + b + 1, fun f hf => ?_⟩
    obtain ⟨g, rfl⟩ : ∃ g, f = g + 1 := ⟨f - 1, by omega⟩
    simp only [Holds, parseExpr] at ha hb ⊢
    rw [ha g (by omega)]
    exact hb g (by omega)
  | @step p l o ts r ts' e rest hp _ _ ih1 ih2 =>
    obtain ⟨a, ha⟩ := ih1
    obtain ⟨b, hb⟩ := ih2
    refine ⟨a + b + 1, fun f hf => ?_⟩
    obtain ⟨g, rfl⟩ : ∃ g, f = g + 1 := ⟨f - 1, by omega⟩
    simp only [Holds, parseOps, hp, if_true] at ha hb ⊢
    rw [ha g (by omega)]
    exact hb g (by omega)
  | @stop p l ts hs =>
    refine ⟨1, fun f hf => ?_⟩
    obtain ⟨g, rfl⟩ : ∃ g, f = g + 1 := ⟨f - 1, by omega⟩
    exact parseOps_stops g p l ts hs
  | @neg ts e rest _ ih =>
    obtain ⟨a, ha⟩ := ih
    refine ⟨a + 1, fun f hf => ?_⟩
    obtain ⟨g, rfl⟩ : ∃ g, f = g + 1 := ⟨f - 1, by omega⟩
    simp only [Holds, parsePrimary] at ha ⊢
    rw [ha g (by omega)]
  | tru => exact ⟨1, fun f hf => by obtain ⟨g, rfl⟩ : ∃ g, f = g + 1 := ⟨f - 1, by omega⟩; simp [Holds, parsePrimary]⟩
  | fls => exact ⟨1, fun f hf => by obtain ⟨g, rfl⟩ : ∃ g, f = g + 1 := ⟨f - 1, by omega⟩; simp [Holds, parsePrimary]⟩
  | null => exact ⟨1, fun f hf => by obtain ⟨g, rfl⟩ : ∃ g, f = g + 1 := ⟨f - 1, by omega⟩; simp [Holds, parsePrimary]⟩
  | int => exact ⟨1, fun f hf => by obtain ⟨g, rfl⟩ : ∃ g, f = g + 1 := ⟨f - 1, by omega⟩; simp [Holds, parsePrimary]⟩
  | dec => exact ⟨1, fun f hf => by obtain ⟨g, rfl⟩ : ∃ g, f = g + 1 := ⟨f - 1, by omega⟩; simp [Holds, parsePrimary]⟩
  | @text raw v rest hv =>
    exact ⟨1, fun f hf => by obtain ⟨g, rfl⟩ : ∃ g, f = g + 1 := ⟨f - 1, by omega⟩; simp [Holds, parsePrimary, hv]⟩
  | @lam ts args rest b rest' hl _ ih =>
    obtain ⟨a, ha⟩ := ih
    refine ⟨a + 1, fun f hf => ?_⟩
    obtain ⟨g, rfl⟩ : ∃ g, f = g + 1 := ⟨f - 1, by omega⟩
    simp only [Holds] at ha ⊢
    simp only [parsePrimary, hl]
    rw [ha g (by omega)]
  | @atomRef n ts e rest _ ih =>
    obtain ⟨a, ha⟩ := ih
    refine ⟨a + 2, fun f hf => ?_⟩
    obtain ⟨g, rfl⟩ : ∃ g, f = g + 2 := ⟨f - 2, by omega⟩
    simp only [Holds] at ha ⊢
    simp only [parsePrimary, lamHead, parseAtom]
    exact ha g (by omega)
  | @atomParen ts e1 ts' e rest hl _ _ ih1 ih2 =>
    obtain ⟨a, ha⟩ := ih1
    obtain ⟨b, hb⟩ := ih2
    refine ⟨a + b + 2, fun f hf => ?_⟩
    obtain ⟨g, rfl⟩ : ∃ g, f = g + 2 := ⟨f - 2, by omega⟩
    simp only [Holds] at ha hb ⊢
    simp only [parsePrimary, hl, parseAtom]
    rw [ha g (by omega)]
    exact hb g (by omega)
  | @sfxDotName a n ts e rest _ ih =>
    obtain ⟨x, hx⟩ := ih
    refine ⟨x + 1, fun f hf => ?_⟩
    obtain ⟨g, rfl⟩ : ∃ g, f = g + 1 := ⟨f - 1, by omega⟩
    simp only [Holds] at hx ⊢
    simp only [parseSuffix]
    exact hx g (by omega)
  | @sfxDotInt a n ts e rest _ ih =>
    obtain ⟨x, hx⟩ := ih
    refine ⟨x + 1, fun f hf => ?_⟩
    obtain ⟨g, rfl⟩ : ∃ g, f = g + 1 := ⟨f - 1, by omega⟩
    simp only [Holds] at hx ⊢
    simp only [parseSuffix]
    exact hx g (by omega)
  | @sfxIdx a ts i ts' e rest _ _ ih1 ih2 =>
    obtain ⟨x, hx⟩ := ih1
    obtain ⟨y, hy⟩ := ih2
    refine ⟨x + y + 1, fun f hf => ?_⟩
    obtain ⟨g, rfl⟩ : ∃ g, f = g + 1 := ⟨f - 1, by omega⟩
    simp only [Holds] at hx hy ⊢
    simp only [parseSuffix]
    rw [hx g (by omega)]
    exact hy g (by omega)
  | @sfxCall0 a ts e rest _ ih =>
    obtain ⟨x, hx⟩ := ih
    refine ⟨x + 1, fun f hf => ?_⟩
    obtain ⟨g, rfl⟩ : ∃ g, f = g + 1 := ⟨f - 1, by omega⟩
    simp only [Holds] at hx ⊢
    simp only [parseSuffix]
    exact hx g (by omega)
  | @sfxCall a ts ps ts' e rest hne _ _ ih1 ih2 =>
    obtain ⟨x, hx⟩ := ih1
    obtain ⟨y, hy⟩ := ih2
    refine ⟨x + y + 1, fun f hf => ?_⟩
    obtain ⟨g, rfl⟩ : ∃ g, f = g + 1 := ⟨f - 1, by omega⟩
    simp only [Holds] at hx hy ⊢
    cases ts with
    | nil =>
      simp only [parseSuffix]
      rw [hx g (by omega)]
      exact hy g (by omega)
    | cons t tl =>
      cases t <;> first
        | exact absurd rfl (hne tl)
        | (simp only [parseSuffix]
           rw [hx g (by omega)]
           exact hy g (by omega))
  | @sfxStop a ts hq =>
    refine ⟨1, fun f hf => ?_⟩
    obtain ⟨g, rfl⟩ : ∃ g, f = g + 1 := ⟨f - 1, by omega⟩
    exact parseSuffix_quietS g a ts hq
  | @argsOne ts e rest _ hne ih =>
    obtain ⟨x, hx⟩ := ih
    refine ⟨x + 1, fun f hf => ?_⟩
    obtain ⟨g, rfl⟩ : ∃ g, f = g + 1 := ⟨f - 1, by omega⟩
    simp only [Holds] at hx ⊢
    simp only [parseArgs]
    rw [hx g (by omega)]
    cases rest with
    | nil => rfl
    | cons t tl =>
      cases t <;> first
        | exact absurd rfl (hne tl)
        | rfl
  | @argsMore ts e ts' more rest _ _ ih1 ih2 =>
    obtain ⟨x, hx⟩ := ih1
    obtain ⟨y, hy⟩ := ih2
    refine ⟨x + y + 1, fun f hf => ?_⟩
    obtain ⟨g, rfl⟩ : ∃ g, f = g + 1 := ⟨f - 1, by omega⟩
    simp only [Holds] at hx hy ⊢
    simp only [parseArgs]
    rw [hx g (by omega)]
    simp only []
    rw [hy g (by omega)]


/-! ### the shape of what the parser produces, and completeness on printed trees -/

def isAtom : Expr → Bool
  | .ref _ => true
  | .paren _ => true
  | .dot _ _ => true
  | .idx _ _ => true
  | .call _ _ => true
  | _ => false

/-- the highest level at which an expression can be parsed as a whole: its operator's for a binary
node, 13 for a negation, 14 for everything else (atoms, literals and anonymous functions are
alternatives of `expression` that are allowed at every level) -/
def level : Expr → Nat
  | .bin o _ _ => o.prec
  | .neg _ => 13
  | _ => 14

/-- the tightest operator that may follow an expression's text without being taken into it: an
anonymous function at the right edge takes every operator (its body is parsed at level 6), a
binary node takes those above its own operator -/
def edge : Expr → Nat
  | .bin o _ r => min o.prec (edge r)
  | .neg e => min 13 (edge e)
  | .lam _ _ => 6
  | _ => 14

theorem edge_le_level (e : Expr) : edge e ≤ level e := by
  cases e <;> simp only [edge, level] <;> omega

/-- the next token neither continues an atom nor turns `( name )` into the head of an anonymous
function -/
def quiet : List Tok → Prop
  | .dot :: _ => False
  | .lbrack :: _ => False
  | .lparen :: _ => False
  | .arrow :: _ => False
  | _ => True

def noArrow : List Tok → Prop
  | .arrow :: _ => False
  | _ => True

/-- Trees in the shape the parser produces (and parameter lists of such trees): names are printed
lower-case; number literals hold the rendering of their value; text literals are ones whose
quoted form denotes them; a negation's operand is at level 13 or more; a binary node's left operand
lets its operator follow (`edge`) and its right operand is strictly above the operator's level (left
associativity); the container of a lookup or call is an atom; an anonymous function has at least one
parameter. -/
inductive Shape : Res → Prop where
  | ref {n} : lowerName n = n → Shape (.e (.ref n))
  | tru : Shape (.e (.bool true))
  | fls : Shape (.e (.bool false))
  | null : Shape (.e .null)
  | num {s} : numValue s = s → Shape (.e (.num s))
  | text {v} : Quote.literalValue (Quote.quote Tables.isPrint v) = some v → Shape (.e (.text v))
  | neg {e} : Shape (.e e) → 13 ≤ level e → Shape (.e (.neg e))
  | paren {e} : Shape (.e e) → Shape (.e (.paren e))
  | bin {o l r} : Shape (.e l) → Shape (.e r) → o.prec ≤ edge l → o.prec + 1 ≤ level r → Shape (.e (.bin o l r))
  | dot {c l} : Shape (.e c) → isAtom c = true → Shape (.e (.dot c l))
  | idx {c i} : Shape (.e c) → isAtom c = true → Shape (.e i) → Shape (.e (.idx c i))
  | call {f ps} : Shape (.e f) → isAtom f = true → Shape (.a ps) → Shape (.e (.call f ps))
  | lam {args b} : args ≠ [] → Shape (.e b) → Shape (.e (.lam args b))
  | argsNil : Shape (.a .nil)
  | argsCons {e rest} : Shape (.e e) → Shape (.a rest) → Shape (.a (.cons e rest))

theorem prec_le_12 (o : BinOp) : o.prec ≤ 12 := by cases o <;> simp [BinOp.prec]
theorem prec_ge_7 (o : BinOp) : 7 ≤ o.prec := by cases o <;> simp [BinOp.prec]

theorem stops_of (p : Nat) (rest : List Tok) (h : ∀ q tl, rest = .op q :: tl → ¬ p ≤ q.prec) : stops p rest := by
  cases rest with
  | nil => trivial
  | cons t tl =>
    cases t with
    | op q => exact h q tl rfl
    | _ => trivial

theorem quietS_of_quiet {rest : List Tok} (h : quiet rest) : quietS rest := by
  cases rest with
  | nil => trivial
  | cons t tl =>
    cases t with
    | dot => exact absurd h (by simp [quiet])
    | lbrack => exact absurd h (by simp [quiet])
    | lparen => exact absurd h (by simp [quiet])
    | _ => trivial

theorem noArrow_of_quiet {rest : List Tok} (h : quiet rest) : noArrow rest := by
  cases rest with
  | nil => trivial
  | cons t tl =>
    cases t with
    | arrow => exact absurd h (by simp [quiet])
    | _ => trivial

/-- what may follow the tokens of an expression inside the parentheses of an atom -/
def tailOK : List Tok → Prop
  | [] => True
  | .op _ :: _ => True
  | .dot :: _ => True
  | .lbrack :: _ => True
  | .lparen :: _ => True
  | .rparen :: r => noArrow r
  | _ => False

theorem lamHead_ref (n : List Char) (T : List Tok) (hT : tailOK T) : lamHead (.lparen :: .name n :: T) = none := by
  simp only [lamHead]
  cases T with
  | nil => simp [lamHead.names]
  | cons t tl =>
    cases t with
    | rparen =>
      simp only [tailOK] at hT
      cases tl with
      | nil => simp [lamHead.names]
      | cons t2 tl2 =>
        cases t2 with
        | arrow => exact absurd hT (by simp [noArrow])
        | _ => simp [lamHead.names]
    | comma => exact absurd hT (by simp [tailOK])
    | _ => simp [lamHead.names]

/-- the tokens of a well-shaped expression in parentheses are never the head of an anonymous function -/
theorem lamHead_shape {r : Res} (h : Shape r) :
    match r with
    | .e e => ∀ T, tailOK T → lamHead (.lparen :: (toks e ++ T)) = none
    | .a _ => True := by
  induction h with
  | @ref n hn => intro T hT; simp only [toks, List.cons_append, List.nil_append]; exact lamHead_ref _ T hT
  | tru => intro T _; simp [toks, lamHead]
  | fls => intro T _; simp [toks, lamHead]
  | null => intro T _; simp [toks, lamHead]
  | num _ => intro T _; simp only [toks]; split <;> simp [lamHead]
  | text _ => intro T _; simp [toks, lamHead]
  | neg _ _ _ => intro T _; simp [toks, lamHead]
  | paren _ _ => intro T _; simp [toks, lamHead]
  | @bin o l r _ _ _ _ ihl _ =>
    intro T _
    have : toks (.bin o l r) ++ T = toks l ++ (.op o :: (toks r ++ T)) := by simp [toks, List.append_assoc]
    rw [this]
    exact ihl _ (by simp [tailOK])
  | @dot c l _ _ ih =>
    intro T _
    have : toks (.dot c l) ++ T = toks c ++ (.dot :: ((if isAllDigits l then Tok.int l else Tok.name l) :: T)) := by
      simp [toks, List.append_assoc]
    rw [this]
    exact ih _ (by simp [tailOK])
  | @idx c i _ _ _ ih _ =>
    intro T _
    have : toks (.idx c i) ++ T = toks c ++ (.lbrack :: (toks i ++ (.rbrack :: T))) := by simp [toks, List.append_assoc]
    rw [this]
    exact ih _ (by simp [tailOK])
  | @call f ps _ _ _ ih _ =>
    intro T _
    have : toks (.call f ps) ++ T = toks f ++ (.lparen :: (argToks ps ++ (.rparen :: T))) := by simp [toks, List.append_assoc]
    rw [this]
    exact ih _ (by simp [tailOK])
  | lam _ _ _ => intro T _; simp [toks, lamHead]
  | argsNil => trivial
  | argsCons _ _ _ _ => trivial

/-- the tokens of a well-shaped expression start with something, and not with `)` -/
theorem toks_head {r : Res} (h : Shape r) :
    match r with
    | .e e => ∃ t, (toks e).head? = some t ∧ t ≠ .rparen
    | .a _ => True := by
  induction h with
  | ref _ => exact ⟨_, rfl, by simp⟩
  | tru => exact ⟨_, rfl, by simp⟩
  | fls => exact ⟨_, rfl, by simp⟩
  | null => exact ⟨_, rfl, by simp⟩
  | @num s _ => exact ⟨_, rfl, by split <;> simp⟩
  | text _ => exact ⟨_, rfl, by simp⟩
  | neg _ _ _ => exact ⟨_, rfl, by simp⟩
  | paren _ _ => exact ⟨.lparen, by simp [toks], by simp⟩
  | bin _ _ _ _ ihl _ => obtain ⟨t, h1, h2⟩ := ihl; exact ⟨t, by simp [toks, List.head?_append, h1], h2⟩
  | dot _ _ ih => obtain ⟨t, h1, h2⟩ := ih; exact ⟨t, by simp [toks, List.head?_append, h1], h2⟩
  | idx _ _ _ ih _ => obtain ⟨t, h1, h2⟩ := ih; exact ⟨t, by simp [toks, List.head?_append, h1], h2⟩
  | call _ _ _ ih _ => obtain ⟨t, h1, h2⟩ := ih; exact ⟨t, by simp [toks, List.head?_append, h1], h2⟩
  | lam _ _ _ => exact ⟨.lparen, by simp [toks], by simp⟩
  | argsNil => trivial
  | argsCons _ _ _ _ => trivial

/-- `, b, c` -/
def moreNames : List (List Char) → List Tok
  | [] => []
  | b :: bs => .comma :: .name b :: moreNames bs

theorem nameToks_cons (a : List Char) (bs : List (List Char)) : nameToks (a :: bs) = .name a :: moreNames bs := by
  induction bs generalizing a with
  | nil => rfl
  | cons b bs ih => simp only [nameToks, moreNames]; rw [ih]

theorem names_moreNames (acc bs : List (List Char)) (R : List Tok) :
    lamHead.names acc (moreNames bs ++ (.rparen :: .arrow :: R)) = some (acc ++ bs, R) := by
  induction bs generalizing acc with
  | nil => simp [moreNames, lamHead.names]
  | cons b bs ih =>
    simp only [moreNames, List.cons_append, lamHead.names]
    rw [ih]; simp

theorem lamHead_nameToks (args : List (List Char)) (hne : args ≠ []) (R : List Tok) :
    lamHead (.lparen :: (nameToks args ++ (.rparen :: .arrow :: R))) = some (args, R) := by
  cases args with
  | nil => exact absurd rfl hne
  | cons a bs =>
    rw [nameToks_cons]
    simp only [List.cons_append, lamHead]
    rw [names_moreNames]; simp

/-- what the completeness theorem says of an expression / a parameter list -/
def Complete : Res → Prop
  | .e e =>
    (∀ (p : Nat) (rest : List Tok) (r' : Res) (rest' : List Tok), p ≤ level e → quiet rest →
      (∀ q tl, rest = .op q :: tl → q.prec ≤ edge e) →
      Parses (.ops p e) rest r' rest' → Parses (.expr p) (toks e ++ rest) r' rest') ∧
    (isAtom e = true → ∀ (rest : List Tok) (r' : Res) (rest' : List Tok), noArrow rest →
      Parses (.suffix e) rest r' rest' → Parses .primary (toks e ++ rest) r' rest')
  | .a ps => ps ≠ .nil → ∀ ts', Parses .args (argToks ps ++ (.rparen :: ts')) (.a ps) (.rparen :: ts')

/-- an atom in expression position: its tokens, then the suffix loop stops, then the operator loop -/
theorem expr_of_atom {e : Expr}
    (hB : ∀ (rest : List Tok) (r' : Res) (rest' : List Tok), noArrow rest →
      Parses (.suffix e) rest r' rest' → Parses .primary (toks e ++ rest) r' rest')
    (p : Nat) (rest : List Tok) (r' : Res) (rest' : List Tok) (hq : quiet rest)
    (hk : Parses (.ops p e) rest r' rest') : Parses (.expr p) (toks e ++ rest) r' rest' := by
  have h1 := hB rest (.e e) rest (noArrow_of_quiet hq) (.sfxStop (quietS_of_quiet hq))
  cases r' with
  | e x => exact .expr h1 hk
  | a x => cases hk

/-- **Completeness of the relational reading on printed trees** (continuation form). -/
theorem complete_of_shape {r : Res} (h : Shape r) : Complete r := by
  induction h with
  | @ref n hn =>
    have hB : ∀ (rest : List Tok) (r' : Res) (rest' : List Tok), noArrow rest →
        Parses (.suffix (.ref n)) rest r' rest' → Parses .primary (toks (.ref n) ++ rest) r' rest' := by
      intro rest r' rest' _ hk
      simp only [toks, hn, List.cons_append, List.nil_append]
      cases r' with
      | e x => exact .atomRef hk
      | a x => cases hk
    exact ⟨fun p rest r' rest' _ hq _ hk => expr_of_atom hB p rest r' rest' hq hk, fun _ => hB⟩
  | tru =>
    refine ⟨fun p rest r' rest' _ _ _ hk => ?_, fun h => by cases h⟩
    cases r' with
    | e x => exact .expr .tru hk
    | a x => cases hk
  | fls =>
    refine ⟨fun p rest r' rest' _ _ _ hk => ?_, fun h => by cases h⟩
    cases r' with
    | e x => exact .expr .fls hk
    | a x => cases hk
  | null =>
    refine ⟨fun p rest r' rest' _ _ _ hk => ?_, fun h => by cases h⟩
    cases r' with
    | e x => exact .expr .null hk
    | a x => cases hk
  | @num s hs =>
    refine ⟨fun p rest r' rest' _ _ _ hk => ?_, fun h => by cases h⟩
    cases r' with
    | a x => cases hk
    | e x =>
      simp only [toks]
      split
      · have h : Parses .primary (.dec s :: rest) (.e (.num (numValue s))) rest := .dec
        rw [hs] at h
        exact .expr h hk
      · have h : Parses .primary (.int s :: rest) (.e (.num (numValue s))) rest := .int
        rw [hs] at h
        exact .expr h hk
  | @text v hv =>
    refine ⟨fun p rest r' rest' _ _ _ hk => ?_, fun h => by cases h⟩
    cases r' with
    | a x => cases hk
    | e x => exact .expr (.text hv) hk
  | @neg e1 _ hl ih =>
    refine ⟨fun p rest r' rest' _ hq hedge hk => ?_, fun h => by cases h⟩
    cases r' with
    | a x => cases hk
    | e x =>
      simp only [toks, List.cons_append]
      simp only [edge] at hedge
      refine .expr (.neg (ih.1 13 rest (.e e1) rest hl hq ?_ (.stop (stops_of 13 rest ?_)))) hk
      · intro q tl hh; have := hedge q tl hh; omega
      · intro q tl _; have := prec_le_12 q; omega
  | @paren e1 hc ih =>
    have hB : ∀ (rest : List Tok) (r' : Res) (rest' : List Tok), noArrow rest →
        Parses (.suffix (.paren e1)) rest r' rest' → Parses .primary (toks (.paren e1) ++ rest) r' rest' := by
      intro rest r' rest' hna hk
      have hts : toks (.paren e1) ++ rest = .lparen :: (toks e1 ++ .rparen :: rest) := by simp [toks, List.append_assoc]
      rw [hts]
      cases r' with
      | a x => cases hk
      | e x =>
        refine .atomParen (lamHead_shape hc _ (by simpa [tailOK] using hna)) ?_ hk
        exact ih.1 0 (.rparen :: rest) (.e e1) (.rparen :: rest) (Nat.zero_le _) (by simp [quiet])
          (by intro q tl hh; cases hh) (.stop (by simp [stops]))
    exact ⟨fun p rest r' rest' _ hq _ hk => expr_of_atom hB p rest r' rest' hq hk, fun _ => hB⟩
  | @bin o l r _ _ hl hr ihl ihr =>
    refine ⟨fun p rest r' rest' hp hq hedge hk => ?_, fun h => by cases h⟩
    cases r' with
    | a x => cases hk
    | e x =>
      have hts : toks (.bin o l r) ++ rest = toks l ++ (.op o :: (toks r ++ rest)) := by simp [toks, List.append_assoc]
      rw [hts]
      simp only [level] at hp
      simp only [edge] at hedge
      apply ihl.1 p _ (.e x) rest' (by have := edge_le_level l; omega) (by simp [quiet])
      · intro q tl hh; cases hh; exact hl
      · refine .step hp (ihr.1 (o.prec + 1) rest (.e r) rest hr hq ?_ (.stop (stops_of _ rest ?_))) hk
        · intro q tl hh; have := hedge q tl hh; omega
        · intro q tl hh; have := hedge q tl hh; omega
  | @dot c l _ hat ih =>
    have hB : ∀ (rest : List Tok) (r' : Res) (rest' : List Tok), noArrow rest →
        Parses (.suffix (.dot c l)) rest r' rest' → Parses .primary (toks (.dot c l) ++ rest) r' rest' := by
      intro rest r' rest' _ hk
      have hts : toks (.dot c l) ++ rest = toks c ++ (.dot :: ((if isAllDigits l then Tok.int l else Tok.name l) :: rest)) := by
        simp [toks, List.append_assoc]
      rw [hts]
      cases r' with
      | a x => cases hk
      | e x =>
        apply ih.2 hat _ _ _ (by simp [noArrow])
        split
        · exact .sfxDotInt hk
        · exact .sfxDotName hk
    exact ⟨fun p rest r' rest' _ hq _ hk => expr_of_atom hB p rest r' rest' hq hk, fun _ => hB⟩
  | @idx c i _ hat _ ihc ihi =>
    have hB : ∀ (rest : List Tok) (r' : Res) (rest' : List Tok), noArrow rest →
        Parses (.suffix (.idx c i)) rest r' rest' → Parses .primary (toks (.idx c i) ++ rest) r' rest' := by
      intro rest r' rest' _ hk
      have hts : toks (.idx c i) ++ rest = toks c ++ (.lbrack :: (toks i ++ (.rbrack :: rest))) := by simp [toks, List.append_assoc]
      rw [hts]
      cases r' with
      | a x => cases hk
      | e x =>
        apply ihc.2 hat _ _ _ (by simp [noArrow])
        refine .sfxIdx ?_ hk
        exact ihi.1 0 (.rbrack :: rest) (.e i) (.rbrack :: rest) (Nat.zero_le _) (by simp [quiet])
          (by intro q tl hh; cases hh) (.stop (by simp [stops]))
    exact ⟨fun p rest r' rest' _ hq _ hk => expr_of_atom hB p rest r' rest' hq hk, fun _ => hB⟩
  | @call f ps _ hat hps ihf ihps =>
    have hB : ∀ (rest : List Tok) (r' : Res) (rest' : List Tok), noArrow rest →
        Parses (.suffix (.call f ps)) rest r' rest' → Parses .primary (toks (.call f ps) ++ rest) r' rest' := by
      intro rest r' rest' _ hk
      have hts : toks (.call f ps) ++ rest = toks f ++ (.lparen :: (argToks ps ++ (.rparen :: rest))) := by simp [toks, List.append_assoc]
      rw [hts]
      cases r' with
      | a x => cases hk
      | e x =>
        apply ihf.2 hat _ _ _ (by simp [noArrow])
        cases ps with
        | nil => simp only [argToks, List.nil_append]; exact .sfxCall0 hk
        | cons e1 more =>
          refine .sfxCall ?_ (ihps (by simp) rest) hk
          -- the parameters do not start with `)`
          intro t heq
          cases hps with
          | argsCons he1 _ =>
            obtain ⟨t1, h1, h2⟩ := toks_head he1
            have hh := congrArg List.head? heq
            cases more with
            | nil => simp [argToks, List.head?_append, h1] at hh; exact h2 hh
            | cons e2 more2 => simp [argToks, List.head?_append, h1] at hh; exact h2 hh
    exact ⟨fun p rest r' rest' _ hq _ hk => expr_of_atom hB p rest r' rest' hq hk, fun _ => hB⟩
  | @lam args b hne _ ih =>
    refine ⟨fun p rest r' rest' _ hq hedge hk => ?_, fun h => by cases h⟩
    cases r' with
    | a x => cases hk
    | e x =>
      have hts : toks (.lam args b) ++ rest = .lparen :: (nameToks args ++ (.rparen :: .arrow :: (toks b ++ rest))) := by
        simp [toks, List.append_assoc]
      rw [hts]
      simp only [edge] at hedge
      have hl : 6 ≤ level b := by cases b <;> simp only [level] <;> first | omega | (have := prec_ge_7 ‹BinOp›; omega)
      have hno : ∀ q tl, rest = .op q :: tl → False := by
        intro q tl hh; have := hedge q tl hh; have := prec_ge_7 q; omega
      refine .expr (.lam (lamHead_nameToks args hne _) ?_) hk
      exact ih.1 6 rest (.e b) rest hl hq (fun q tl hh => (hno q tl hh).elim) (.stop (stops_of 6 rest (fun q tl hh => (hno q tl hh).elim)))
  | argsNil => intro h; exact absurd rfl h
  | @argsCons e1 more _ _ ihe ihm =>
    intro _ ts'
    cases more with
    | nil =>
      simp only [argToks]
      refine .argsOne ?_ (by intro t hh; cases hh)
      exact ihe.1 0 (.rparen :: ts') (.e e1) (.rparen :: ts') (Nat.zero_le _) (by simp [quiet])
        (by intro q tl hh; cases hh) (.stop (by simp [stops]))
    | cons e2 more2 =>
      have hts : argToks (.cons e1 (.cons e2 more2)) ++ (.rparen :: ts') =
          toks e1 ++ (.comma :: (argToks (.cons e2 more2) ++ (.rparen :: ts'))) := by simp [argToks, List.append_assoc]
      rw [hts]
      refine .argsMore ?_ (ihm (by simp) ts')
      exact ihe.1 0 _ (.e e1) _ (Nat.zero_le _) (by simp [quiet]) (by intro q tl hh; cases hh) (.stop (by simp [stops]))

end GoflowModel.Expr.Full
