import GoflowModel.Lemmas.EngineChain
/-!
Termination of `continueUntilWait`: a measure that decreases on every iteration.  Visiting a node
uses up one of the `MaxStepsPerSprint` steps; finishing a run moves to a run created earlier; once
the step limit has failed a run only the unwinding through its ancestors is left.
-/
namespace GoflowModel.Engine

def Mx (o : Opts) : Nat := o.maxSteps.toNat

/-- steps still allowed -/
def Am (o : Opts) (l : Loop) : Nat := (Mx o + 1) - min l.n.toNat (Mx o + 1)

/-- how far the run stack can still unwind -/
def Bm (l : Loop) : Nat :=
  if l.st.s.pushed.isSome then 2 * l.st.s.runs.length + 2
  else match l.cur with
    | none => 0
    | some c => 2 * c + 1

def Km (o : Opts) (R0 : Nat) : Nat := 2 * (R0 + Mx o + 1) + 4

def mu (o : Opts) (R0 : Nat) (l : Loop) : Nat := Am o l * Km o R0 + Bm l

structure LT (o : Opts) (R0 : Nat) (l : Loop) : Prop where
  nonneg : 0 ≤ l.n
  /-- past the step limit: nothing left to go to, and the current run has been failed -/
  ov : (Mx o : Int) < l.n → l.exit = none ∧ l.st.s.pushed = none ∧
    (∃ c, l.cur = some c ∧ runStatus l.st.s c = some .failed) ∧ ∃ se ∈ l.st.sp, se.ev.kind = failureKind
  /-- every run beyond the first `R0` was pushed by a visited node -/
  rl : l.st.s.runs.length + (if l.st.s.pushed.isSome then 1 else 0) ≤ R0 + min l.n.toNat (Mx o) + 1

theorem Bm_lt {o : Opts} {R0 : Nat} {l : Loop} (hp : LP l) (ht : LT o R0 l) : Bm l < Km o R0 := by
  have h := ht.rl
  unfold Bm Km
  split
  · rename_i hps
    simp only [hps, if_true] at h
    omega
  · rename_i hps
    simp only [hps] at h
    split
    · omega
    · rename_i c hc
      have := hp.curValid c hc
      simp only [Bool.false_eq_true, if_false] at h
      omega

theorem mu_lt {o : Opts} {R0 : Nat} {l l' : Loop}
    (h : Am o l' < Am o l ∨ (Am o l' = Am o l ∧ Bm l' < Bm l)) (hb : Bm l' < Km o R0) :
    mu o R0 l' < mu o R0 l := by
  unfold mu
  rcases h with h | ⟨h1, h2⟩
  · have h3 : (Am o l' + 1) * Km o R0 ≤ Am o l * Km o R0 := Nat.mul_le_mul_right _ h
    rw [Nat.succ_mul] at h3
    omega
  · rw [h1]; omega

theorem runStatus_failRun_same (st : St) (r : Nat) (step : Option StepRef) (hr : r < st.s.runs.length) :
    runStatus (failRun st r step).s r = some .failed := by
  unfold failRun
  rw [runStatus_logEvent]
  unfold exitRun
  rw [runStatus_modifyRun]
  simp [List.getElem?_eq_getElem hr]

theorem failRun_length (st : St) (r : Nat) (step : Option StepRef) :
    (failRun st r step).s.runs.length = st.s.runs.length := by
  have := congrArg List.length (parents_failRun st r step)
  simpa [parents] using this

theorem length_of_parents_eq {s s' : Session} (h : parents s' = parents s) : s'.runs.length = s.runs.length := by
  have := congrArg List.length h
  simpa [parents] using this

/-! ### `pickDest` -/

theorem pickDest_T (a : Assets) (o : Opts) (R0 : Nat) (l : Loop) (hi : LI l) (ht : LT o R0 l) :
    (pickDest a l).1.n = l.n ∧ (pickDest a l).1.st.sp = l.st.sp ∧
    (pickDest a l).1.st.s.runs.length = l.st.s.runs.length + (if l.st.s.pushed.isSome then 1 else 0) ∧
    (∀ c', (pickDest a l).1.cur = some c' → 2 * c' + 1 ≤ Bm l) ∧
    ((Mx o : Int) < l.n → (pickDest a l).2 = none ∧
      ∃ c, (pickDest a l).1.cur = some c ∧ runStatus (pickDest a l).1.st.s c = some .failed) := by
  unfold pickDest
  split
  · rename_i p hp
    simp only
    refine ⟨trivial, trivial, ?_, ?_, ?_⟩
    · simp only [hp, Option.isSome_some, if_true]
      split
      · simp [exitAll]
      · simp
    · intro c' hc'
      simp only [Option.some.injEq] at hc'
      subst hc'
      unfold Bm
      simp only [hp, Option.isSome_some, if_true]
      split
      · simp only [exitAll, List.length_map]; omega
      · omega
    · intro hov
      have := (ht.ov hov).2.1
      rw [hp] at this; cases this
  · rename_i hp
    have hbm : ∀ c', l.cur = some c' → 2 * c' + 1 ≤ Bm l := by
      intro c' hc'
      unfold Bm
      simp [hp, hc']
    split
    · rename_i d hd
      refine ⟨rfl, rfl, by simp [hp], hbm, fun hov => ?_⟩
      have := (ht.ov hov).1
      rw [hd] at this; cases this
    · refine ⟨rfl, rfl, by simp [hp], hbm, fun hov => ⟨rfl, (ht.ov hov).2.2.1⟩⟩

/-! ### `noDest` -/

def NoDestT (o : Opts) (l : Loop) (cur : Nat) : Sum Loop Result → Prop
  | .inl l' => l'.n = l.n ∧ l'.st.s.pushed = none ∧ l'.st.s.runs.length = l.st.s.runs.length ∧
      ∃ p, l'.cur = some p ∧ p < cur ∧ ((Mx o : Int) < l.n → l'.exit = none ∧ runStatus l'.st.s p = some .failed ∧
        ∀ se ∈ l.st.sp, se ∈ l'.st.sp)
  | .inr r => r ≠ .outOfFuel ∧ ((Mx o : Int) < l.n → ∀ st, r = .ok st → st.s.status = .failed ∧ st.sp = l.st.sp)

theorem noDest_T (a : Assets) (o : Opts) (orc : Oracle) (l : Loop) (cur : Nat)
    (hok : SessOK l.st.s) (hex : l.exit = none) (hp : l.st.s.pushed = none) (hpbc : PBC l.st.s)
    (hcv : cur < l.st.s.runs.length)
    (hov : (Mx o : Int) < l.n → runStatus l.st.s cur = some .failed) :
    NoDestT o l cur (noDest a orc l cur) := by
  unfold noDest
  simp only
  generalize hs : (if ((l.st.s.runs[cur]?).map (·.exited)).getD true then l.st.s else exitRun l.st.s cur .completed) = s
  have hsok : SessOK s := by
    subst hs; split
    · exact hok
    · exact SessOK_exitRun cur hok (Or.inl rfl)
  have hsp : s.pushed = none := by subst hs; split <;> exact hp
  have hps : parents s = parents l.st.s := by
    subst hs; split
    · rfl
    · exact parents_exitRun _ _ _
  have hlen : s.runs.length = l.st.s.runs.length := length_of_parents_eq hps
  -- past the limit the current run is failed, hence exited: it is left as it is
  have hsf : (Mx o : Int) < l.n → runStatus s cur = some .failed := by
    intro h
    have hf := hov h
    subst hs
    have hx : ∃ x, l.st.s.runs[cur]? = some x := ⟨_, List.getElem?_eq_getElem hcv⟩
    obtain ⟨x, hx⟩ := hx
    have hst : x.status = .failed := by simpa [runStatus, hx] using hf
    have hex' : x.exited = true := (hok cur x hx).2 (Or.inr (Or.inl hst))
    simp only [hx, Option.map_some, Option.getD_some, hex', if_true]
    exact hf
  have hend : NoDestT o l cur (.inr (.ok { l.st with s := { s with status := endStatus s cur } })) := by
    refine ⟨by simp, fun h st hst => ?_⟩
    simp only [Result.ok.injEq] at hst
    subst hst
    exact ⟨by simp [endStatus, hsf h], rfl⟩
  split
  · rename_i p hpar
    have hplt : p < cur := by
      have : (parents s)[cur]? = some (some p) := by
        simp only [parents, List.getElem?_map]
        cases hx : s.runs[cur]? with
        | none => simp [hx] at hpar
        | some x => simp [hx] at hpar ⊢; exact hpar
      rw [hps] at this
      exact hpbc cur p this
    have hpv : p < s.runs.length := by omega
    split
    · split
      · rename_i hnf
        -- the child did not fail: impossible past the limit
        have hno : ¬ ((Mx o : Int) < l.n) := fun h => hnf (hsf h)
        split
        · refine ⟨rfl, by rw [failRun_pushed]; exact hsp, by rw [failRun_length]; exact hlen, p, rfl, hplt, fun h => absurd h hno⟩
        · have hf := findResumeExit_post a orc { l.st with s := s } p hsok
          have hfp := findResumeExit_parents a orc { l.st with s := s } p
          split
          · rename_i st' heq
            rw [heq] at hf hfp; simp only [FindPost] at hf; simp only [FindParents] at hfp
            refine ⟨rfl, by rw [failRun_pushed, hf.2.2]; exact hsp, ?_, p, rfl, hplt, fun h => absurd h hno⟩
            rw [failRun_length, length_of_parents_eq hfp]; exact hlen
          · rename_i st' e heq
            rw [heq] at hf hfp; simp only [FindPost] at hf; simp only [FindParents] at hfp
            refine ⟨rfl, by rw [hf.2.2.1]; exact hsp, ?_, p, rfl, hplt, fun h => absurd h hno⟩
            rw [length_of_parents_eq hfp]; exact hlen
          · simp [NoDestT]
      · refine ⟨rfl, by rw [failRun_pushed]; exact hsp, by rw [failRun_length]; exact hlen, p, rfl, hplt, fun _ => ⟨hex, ?_, ?_⟩⟩
        · exact runStatus_failRun_same _ _ _ hpv
        · intro se hse
          simp only [failRun, logEvent, List.mem_append]
          exact Or.inl hse
    · exact hend
  · exact hend

/-! ### `goDest` -/

def GoDestT (o : Opts) (l : Loop) (cur : Nat) : Sum Loop Result → Prop
  | .inl l' => l'.n = l.n + 1 ∧ l'.st.s.runs.length = l.st.s.runs.length ∧ l'.cur = l.cur ∧
      (l'.st.s.pushed.isSome → l.n + 1 ≤ o.maxSteps) ∧
      (o.maxSteps < l.n + 1 → l'.exit = none ∧ l'.st.s.pushed = none ∧ runStatus l'.st.s cur = some .failed ∧
        ∃ se ∈ l'.st.sp, se.ev.kind = failureKind)
  | .inr r => r ≠ .outOfFuel

theorem goDest_T (a : Assets) (o : Opts) (orc : Oracle) (l : Loop) (cur d : Nat)
    (hex : l.exit = none) (hp : l.st.s.pushed = none) (hcv : cur < l.st.s.runs.length) :
    GoDestT o l cur (goDest a o orc l cur d) := by
  unfold goDest
  simp only
  split
  · rename_i hgt
    refine ⟨rfl, failRun_length _ _ _, rfl, ?_, fun _ => ⟨hex, ?_, runStatus_failRun_same _ _ _ hcv, ?_⟩⟩
    · rw [failRun_pushed, hp]; simp
    · rw [failRun_pushed, hp]
    · refine ⟨⟨some cur, ⟨failureKind, false, l.step⟩⟩, ?_, rfl⟩
      simp [failRun, logEvent]
  · rename_i hle
    split
    · simp [GoDestT]
    · rename_i node _
      split
      · rename_i vc _
        have hv := visitNode_parents l.st cur d node vc
        split
        · simp [GoDestT]
        · simp [GoDestT]
        · rename_i st' step e heq
          rw [heq] at hv; simp only [VisitParents] at hv
          split
          · simp [GoDestT]
          · refine ⟨rfl, length_of_parents_eq hv, rfl, fun _ => by omega, fun h => by omega⟩
      · simp [GoDestT]

/-! ### one iteration -/

def IterT (o : Opts) (R0 : Nat) (l : Loop) : Sum Loop Result → Prop
  | .inl l' => LT o R0 l' ∧ (Am o l' < Am o l ∨ (Am o l' = Am o l ∧ Bm l' < Bm l)) ∧ l'.n ≥ l.n
  | .inr r => r ≠ .outOfFuel ∧ ((Mx o : Int) < l.n → ∀ st, r = .ok st →
      st.s.status = .failed ∧ ∃ se ∈ st.sp, se.ev.kind = failureKind)

theorem iter_T (a : Assets) (o : Opts) (orc : Oracle) (R0 : Nat) (l : Loop) (hi : LI l) (hp : LP l) (ht : LT o R0 l) :
    IterT o R0 l (iter a o orc l) := by
  have hpd := pickDest_T a o R0 l hi ht
  obtain ⟨hpn, hpsp, hplen, hpbm, hpov⟩ := hpd
  have hpi := pickDest_post a l hi
  have hpp := pickDest_parents a l hp
  have hrl := ht.rl
  have hnn := ht.nonneg
  unfold iter
  simp only
  split
  · simp [IterT]
  · rename_i cur hcur hdest
    have hcv := hpp.curValid cur hcur
    have hnd := noDest_T a o orc (pickDest a l).1 cur hpi.1 hpi.2.1 hpi.2.2.1 hpp.pbc hcv (by
      intro h
      rw [hpn] at h
      obtain ⟨c, hc1, hc2⟩ := (hpov h).2
      rw [hcur] at hc1; cases hc1; exact hc2)
    revert hnd
    generalize noDest a orc (pickDest a l).1 cur = res
    intro hnd
    cases res with
    | inr r =>
      refine ⟨hnd.1, fun hov st hst => ?_⟩
      have := hnd.2 (by rw [hpn]; exact hov) st hst
      refine ⟨this.1, ?_⟩
      rw [this.2, hpsp]
      exact (ht.ov hov).2.2.2
    | inl l' =>
      obtain ⟨h1, h2, h3, p, h4, h5, h6⟩ := hnd
      rw [hpn] at h1 h6
      have hbm : Bm l' = 2 * p + 1 := by unfold Bm; simp [h2, h4]
      refine ⟨⟨by rw [h1]; exact hnn, fun hov => ?_, ?_⟩, Or.inr ⟨?_, ?_⟩, by omega⟩
      · rw [h1] at hov
        obtain ⟨se, hse1, hse2⟩ := (ht.ov hov).2.2.2
        exact ⟨(h6 hov).1, h2, ⟨p, h4, (h6 hov).2.1⟩, se, (h6 hov).2.2 se (by rw [hpsp]; exact hse1), hse2⟩
      · rw [h3, hplen, h2, h1]; simpa using hrl
      · unfold Am; rw [h1]
      · rw [hbm]; have := hpbm cur hcur; omega
  · rename_i cur d hcur hdest
    have hcv := hpp.curValid cur hcur
    -- not past the limit: there is somewhere to go
    have hno : ¬ ((Mx o : Int) < l.n) := fun h => by
      have := (hpov h).1
      rw [hdest] at this; cases this
    have hgd := goDest_T a o orc (pickDest a l).1 cur d hpi.2.1 hpi.2.2.1 hcv
    revert hgd
    generalize goDest a o orc (pickDest a l).1 cur d = res
    intro hgd
    cases res with
    | inr r => exact ⟨hgd, fun hov => absurd hov hno⟩
    | inl l' =>
      obtain ⟨h1, h2, h3, h4, h5⟩ := hgd
      rw [hpn] at h1 h4 h5
      have hM : (Mx o : Int) = max o.maxSteps 0 := by unfold Mx; omega
      refine ⟨⟨by omega, fun hov => ?_, ?_⟩, Or.inl ?_, by omega⟩
      · have : o.maxSteps < l.n + 1 := by omega
        have h5' := h5 this
        exact ⟨h5'.1, h5'.2.1, ⟨cur, by rw [h3]; exact hcur, h5'.2.2.1⟩, h5'.2.2.2⟩
      · have hlen : l'.st.s.runs.length = l.st.s.runs.length + (if l.st.s.pushed.isSome then 1 else 0) := by
          rw [h2, hplen]
        generalize (if l.st.s.pushed.isSome then 1 else 0) = k at hlen hrl
        rw [h1]
        clear h5 hpov hpbm
        by_cases hps : l'.st.s.pushed.isSome
        · have := h4 hps
          simp only [hps, if_true]
          unfold Mx at *
          omega
        · simp only [hps, Bool.false_eq_true, if_false]
          unfold Mx at *
          omega
      · clear h5 hpov hpbm
        unfold Am Mx at *
        rw [h1]
        omega

theorem loop_terminates (a : Assets) (o : Opts) (orc : Oracle) (R0 : Nat) (fuel : Nat) (l : Loop)
    (hi : LI l) (hp : LP l) (ht : LT o R0 l) (hf : mu o R0 l < fuel) :
    loop a o orc fuel l ≠ .outOfFuel := by
  induction fuel generalizing l with
  | zero => omega
  | succ fuel ih =>
    simp only [loop]
    have h1 := iter_T a o orc R0 l hi hp ht
    have h2 := iter_post a o orc l hi
    have h3 := iter_parents a o orc l hp
    split
    · rename_i l' heq
      rw [heq] at h1 h2 h3
      have := mu_lt h1.2.1 (Bm_lt h3 h1.1)
      exact ih l' h2 h3 h1.1 (by omega)
    · rename_i r heq
      rw [heq] at h1
      exact h1.1

/-- once the step counter has passed the limit the call can only end with a failed session, and
the sprint holds a failure event -/
theorem loop_past_limit (a : Assets) (o : Opts) (orc : Oracle) (R0 : Nat) (fuel : Nat) (l : Loop)
    (hi : LI l) (hp : LP l) (ht : LT o R0 l) (hov : (Mx o : Int) < l.n) (st : St)
    (h : loop a o orc fuel l = .ok st) :
    st.s.status = .failed ∧ ∃ se ∈ st.sp, se.ev.kind = failureKind := by
  induction fuel generalizing l with
  | zero => simp [loop] at h
  | succ fuel ih =>
    simp only [loop] at h
    have h1 := iter_T a o orc R0 l hi hp ht
    have h2 := iter_post a o orc l hi
    have h3 := iter_parents a o orc l hp
    split at h
    · rename_i l' heq
      rw [heq] at h1 h2 h3
      exact ih l' h2 h3 h1.1 (by have := h1.2.2; omega) h
    · rename_i r heq
      rw [heq] at h1
      exact h1.2 hov st h

theorem mu_lt_fuel {o : Opts} {l : Loop} (hp : LP l) (ht : LT o l.st.s.runs.length l) :
    mu o l.st.s.runs.length l < fuelFor o l.st.s := by
  have hb := Bm_lt hp ht
  have ha : Am o l ≤ Mx o + 1 := by unfold Am; omega
  have h1 : Am o l * Km o l.st.s.runs.length ≤ (Mx o + 1) * Km o l.st.s.runs.length := Nat.mul_le_mul_right _ ha
  have h2 : (Mx o + 2) * Km o l.st.s.runs.length ≤ fuelFor o l.st.s := by
    unfold fuelFor
    apply Nat.mul_le_mul_left
    unfold Km Mx; omega
  unfold mu
  have h3 : (Mx o + 2) * Km o l.st.s.runs.length = (Mx o + 1) * Km o l.st.s.runs.length + Km o l.st.s.runs.length := by
    rw [show Mx o + 2 = (Mx o + 1) + 1 from rfl, Nat.succ_mul]
  omega


theorem LT_init (o : Opts) (l : Loop) (hn : l.n = 0)
    (hr : l.st.s.pushed.isSome → l.st.s.runs.length = 0) : LT o l.st.s.runs.length l := by
  refine ⟨by omega, fun h => by omega, ?_⟩
  split
  · rename_i h; have := hr h; omega
  · omega

theorem start_terminates (a : Assets) (o : Opts) (orc : Oracle) : start a o orc ≠ .outOfFuel := by
  unfold start
  simp only
  split
  · simp
  · have hi : LI { st := { (logSprintOnly ⟨emptySession, []⟩ orc.initEvents) with s := { (logSprintOnly ⟨emptySession, []⟩ orc.initEvents).s with pushed := some ⟨orc.initFlow, false⟩ } }, cur := none, exit := none, step := none, n := 0 } := by
      refine ⟨?_, ?_, by simp⟩
      · unfold SessOK; intro i x hx; simp [logSprintOnly, emptySession] at hx
      · simp [logSprintOnly, emptySession]
    have hp : LP { st := { (logSprintOnly ⟨emptySession, []⟩ orc.initEvents) with s := { (logSprintOnly ⟨emptySession, []⟩ orc.initEvents).s with pushed := some ⟨orc.initFlow, false⟩ } }, cur := none, exit := none, step := none, n := 0 } := by
      refine ⟨?_, by simp⟩
      simp [PBC, parents, logSprintOnly, emptySession]
    have ht := LT_init o ({ st := { (logSprintOnly ⟨emptySession, []⟩ orc.initEvents) with s := { (logSprintOnly ⟨emptySession, []⟩ orc.initEvents).s with pushed := some ⟨orc.initFlow, false⟩ } }, cur := none, exit := none, step := none, n := 0 } : Loop) rfl (fun _ => rfl)
    exact loop_terminates a o orc _ _ _ hi hp ht (mu_lt_fuel hp ht)

theorem resume_terminates (a : Assets) (o : Opts) (orc : Oracle) (s : Session) (k : ResumeKind)
    (hok : SessOK s) (hpush : s.pushed = none) (hpbc : PBC s) :
    resume a o orc s k ≠ .outOfFuel := by
  unfold resume
  simp only
  split
  · simp
  · split
    · simp
    · rename_i w hwr
      split
      · simp
      · split
        · simp
        · split
          · simp
          · rename_i step node _
            split
            · simp
            · split
              · simp
              · have ha := applyResume_props orc ⟨{ s with status := .active }, []⟩ w step k hok
                have hap := parents_applyResume orc ⟨{ s with status := .active }, []⟩ w step k
                generalize applyResume orc ⟨{ s with status := .active }, []⟩ w step k = st1 at ha hap
                have hf := findResumeExit_post a orc st1 w ha.1
                have hfp := findResumeExit_parents a orc st1 w
                split
                · simp
                · simp
                · rename_i st' e heq
                  rw [heq] at hf hfp
                  simp only [FindPost] at hf
                  simp only [FindParents] at hfp
                  have e1 : parents st'.s = parents s := by rw [hfp, hap]; rfl
                  have hpn : st'.s.pushed = none := by rw [hf.2.2.1, ha.2.1]; exact hpush
                  have hi : LI { st := st', cur := some w, exit := e, step := some step, n := 0 } := by
                    refine ⟨hf.1, ?_, fun he => ⟨hpn, w, rfl, hf.2.2.2 he⟩⟩
                    rw [hf.2.1, ha.2.2]; simp
                  have hp : LP { st := st', cur := some w, exit := e, step := some step, n := 0 } := by
                    refine ⟨PBC_of_parents_eq e1 hpbc, ?_⟩
                    intro c hcc
                    simp only [Option.some.injEq] at hcc
                    subst hcc
                    have := length_of_parents_eq e1
                    have := waitingRun_lt s w hwr
                    show w < st'.s.runs.length
                    omega
                  have ht := LT_init o { st := st', cur := some w, exit := e, step := some step, n := 0 } rfl
                    (fun h => by simp [hpn] at h)
                  exact loop_terminates a o orc _ _ _ hi hp ht (mu_lt_fuel hp ht)


/-! ### hitting the limit -/

/-- some iteration of the loop wants to go to a node but has used up its steps -/
def hitsLimit (a : Assets) (o : Opts) (orc : Oracle) : Nat → Loop → Bool
  | 0, _ => false
  | fuel + 1, l =>
    (match (pickDest a l).1.cur, (pickDest a l).2 with
     | some _, some _ => decide (o.maxSteps < l.n + 1)
     | _, _ => false) ||
    (match iter a o orc l with
     | .inl l' => hitsLimit a o orc fuel l'
     | .inr _ => false)

theorem iter_at_limit (a : Assets) (o : Opts) (orc : Oracle) (l : Loop) (cur d : Nat)
    (hc : (pickDest a l).1.cur = some cur) (hd : (pickDest a l).2 = some d) (hn : (pickDest a l).1.n = l.n)
    (hlim : o.maxSteps < l.n + 1) : ∃ l', iter a o orc l = .inl l' ∧ l'.n = l.n + 1 := by
  unfold iter
  simp only [hc, hd]
  unfold goDest
  simp only [hn]
  rw [if_pos (by omega)]
  exact ⟨_, rfl, rfl⟩

theorem loop_hitsLimit (a : Assets) (o : Opts) (orc : Oracle) (R0 : Nat) (fuel : Nat) (l : Loop)
    (hi : LI l) (hp : LP l) (ht : LT o R0 l) (hh : hitsLimit a o orc fuel l = true) (st : St)
    (h : loop a o orc fuel l = .ok st) :
    st.s.status = .failed ∧ ∃ se ∈ st.sp, se.ev.kind = failureKind := by
  induction fuel generalizing l with
  | zero => simp [loop] at h
  | succ fuel ih =>
    have h1 := iter_T a o orc R0 l hi hp ht
    have h2 := iter_post a o orc l hi
    have h3 := iter_parents a o orc l hp
    simp only [hitsLimit, Bool.or_eq_true] at hh
    simp only [loop] at h
    rcases hh with hh | hh
    · -- the limit is hit in this very iteration
      split at hh
      · rename_i cur d hc hd
        have hlim : o.maxSteps < l.n + 1 := by simpa using hh
        obtain ⟨l', e1, e2⟩ := iter_at_limit a o orc l cur d hc hd (pickDest_T a o R0 l hi ht).1 hlim
        rw [e1] at h h1 h2 h3
        simp only at h
        have : (Mx o : Int) < l'.n := by have := ht.nonneg; unfold Mx; omega
        exact loop_past_limit a o orc R0 fuel l' h2 h3 h1.1 this st h
      · cases hh
    · split at hh
      · rename_i l' heq
        rw [heq] at h h1 h2 h3
        exact ih l' h2 h3 h1.1 hh h
      · cases hh

/-- the loop a `Resume` enters, with its fuel (`none`: the resume is rejected, or fails the
session, before the loop) -/
def resumeLoop (a : Assets) (o : Opts) (orc : Oracle) (s : Session) (k : ResumeKind) : Option (Nat × Loop) :=
  if s.status ≠ .waiting then none
  else
    match waitingRun s with
    | none => none
    | some w =>
      if (getFlow a (((s.runs[w]?).map (·.flow)).getD 0)).isNone then none
      else if (countWaits s : Int) ≥ o.maxResumes then none
      else
        match pathLocation a s w with
        | none => none
        | some (step, node) =>
          match (if node.hasRouter then node.wait else none) with
          | none => none
          | some wk =>
            if !accepts wk k then none
            else
              match findResumeExit a orc (applyResume orc ⟨{ s with status := .active }, []⟩ w step k) w with
              | .ok st e => some (fuelFor o st.s, { st := st, cur := some w, exit := e, step := some step, n := 0 })
              | _ => none

theorem resume_eq_loop (a : Assets) (o : Opts) (orc : Oracle) (s : Session) (k : ResumeKind) (fuel : Nat) (l : Loop)
    (h : resumeLoop a o orc s k = some (fuel, l)) : resume a o orc s k = loop a o orc fuel l := by
  unfold resumeLoop at h
  unfold resume
  split at h
  · cases h
  · rename_i hs
    simp only [if_neg hs]
    split at h
    · cases h
    · rename_i w hw
      simp only [hw]
      split at h
      · cases h
      · rename_i hf
        simp only [if_neg hf]
        split at h
        · cases h
        · rename_i hc
          simp only [if_neg hc]
          split at h
          · cases h
          · rename_i step node hloc
            simp only [hloc]
            split at h
            · cases h
            · rename_i wk hwk
              split at h
              · cases h
              · rename_i hacc
                split at h
                · rename_i st e heq
                  simp only [Option.some.injEq, Prod.mk.injEq] at h
                  simp only [hwk, if_neg hacc, heq]
                  rw [← h.1, ← h.2]
                · cases h

theorem resumeLoop_inv (a : Assets) (o : Opts) (orc : Oracle) (s : Session) (k : ResumeKind) (fuel : Nat) (l : Loop)
    (hok : SessOK s) (hpush : s.pushed = none) (hpbc : PBC s)
    (h : resumeLoop a o orc s k = some (fuel, l)) :
    LI l ∧ LP l ∧ LT o l.st.s.runs.length l ∧ fuel = fuelFor o l.st.s := by
  unfold resumeLoop at h
  split at h
  · cases h
  · split at h
    · cases h
    · rename_i w hwr
      split at h
      · cases h
      · split at h
        · cases h
        · split at h
          · cases h
          · rename_i step node _
            split at h
            · cases h
            · split at h
              · cases h
              · have ha := applyResume_props orc ⟨{ s with status := .active }, []⟩ w step k hok
                have hap := parents_applyResume orc ⟨{ s with status := .active }, []⟩ w step k
                generalize applyResume orc ⟨{ s with status := .active }, []⟩ w step k = st1 at ha hap h
                have hf := findResumeExit_post a orc st1 w ha.1
                have hfp := findResumeExit_parents a orc st1 w
                split at h
                · rename_i st' e heq
                  rw [heq] at hf hfp
                  simp only [FindPost] at hf
                  simp only [FindParents] at hfp
                  simp only [Option.some.injEq, Prod.mk.injEq] at h
                  obtain ⟨hfu, hl⟩ := h
                  subst hl
                  have e1 : parents st'.s = parents s := by rw [hfp, hap]; rfl
                  have hpn : st'.s.pushed = none := by rw [hf.2.2.1, ha.2.1]; exact hpush
                  refine ⟨?_, ?_, ?_, hfu.symm⟩
                  · refine ⟨hf.1, ?_, fun he => ⟨hpn, w, rfl, hf.2.2.2 he⟩⟩
                    rw [hf.2.1, ha.2.2]; simp
                  · refine ⟨PBC_of_parents_eq e1 hpbc, ?_⟩
                    intro c hcc
                    simp only [Option.some.injEq] at hcc
                    subst hcc
                    have := length_of_parents_eq e1
                    have := waitingRun_lt s w hwr
                    show w < st'.s.runs.length
                    omega
                  · exact LT_init o _ rfl (fun h => by simp [hpn] at h)
                · cases h

end GoflowModel.Engine
