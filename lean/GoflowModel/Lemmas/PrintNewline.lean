import GoflowModel.Basic.Tables
/-! One fact about the regenerated Unicode table, in a module of its own because the kernel takes
half a minute to evaluate the binary search over it. -/
namespace GoflowModel.Tables

/-- the printable table does not call a newline printable (so `strconv.Quote` escapes it) -/
theorem isPrint_newline : isPrint '\n' = false := by decide +kernel

end GoflowModel.Tables
