import GoflowModel.Lemmas.Quote
import GoflowModel.Excellent.LexText
import GoflowModel.Excellent.Scanner
/-! The quote/backslash state machine shared by the lexer rule and the scanner's literal reader. -/
namespace GoflowModel.LexText
open GoflowModel.Quote

/-- every `"` in the list is immediately preceded by a backslash (`p`: the rune before the list
is a backslash) -/
def QEsc : Bool → List Char → Bool
  | _, [] => true
  | p, c :: r => if c = '"' then p && QEsc false r else QEsc (decide (c = '\\')) r

/-- the list (or, if empty, what precedes it) ends with a backslash -/
def endsBS : Bool → List Char → Bool
  | p, [] => p
  | _, c :: r => endsBS (decide (c = '\\')) r

theorem QEsc_append (p : Bool) (a b : List Char) :
    QEsc p (a ++ b) = (QEsc p a && QEsc (endsBS p a) b) := by
  induction a generalizing p with
  | nil => simp [QEsc, endsBS]
  | cons c a ih =>
    simp only [List.cons_append, QEsc, endsBS]
    split
    · rename_i h; subst h
      rw [ih]; simp [Bool.and_assoc]
    · rw [ih]

theorem endsBS_append (p : Bool) (a b : List Char) :
    endsBS p (a ++ b) = endsBS (endsBS p a) b := by
  induction a generalizing p with
  | nil => simp [endsBS]
  | cons c a ih => simp only [List.cons_append, endsBS]; rw [ih]

/-- the lexer stops at a quote that follows a fully escaped body not ending in a backslash -/
theorem textEnd_definitive (b rest : List Char) (p : Bool) (pos : Nat) (best : Option Nat)
    (hq : QEsc p b = true) (he : endsBS p b = false) :
    textEnd (b ++ '"' :: rest) p pos best = some (pos + b.length + 1) := by
  induction b generalizing p pos best with
  | nil =>
    simp only [endsBS] at he
    simp [textEnd, he]
  | cons c b ih =>
    simp only [List.cons_append, textEnd]
    simp only [QEsc] at hq
    simp only [endsBS] at he
    by_cases h : c = '"'
    · rw [if_pos h] at hq
      rw [if_pos h]
      simp only [Bool.and_eq_true] at hq
      simp only [hq.1, if_true]
      subst h
      rw [ih false (pos + 1) _ hq.2 (by simpa using he)]
      simp only [List.length_cons]; congr 1; omega
    · rw [if_neg h] at hq
      rw [if_neg h]
      rw [ih _ (pos + 1) best hq he]
      simp only [List.length_cons]; congr 1; omega

/-- when nothing after a (backslash-preceded) closing quote contains a quote, the lexer
falls back to that closing quote -/
theorem textEnd_noquote (r : List Char) (p : Bool) (pos : Nat) (best : Option Nat)
    (h : '"' ∉ r) : textEnd r p pos best = best := by
  induction r generalizing p pos with
  | nil => simp [textEnd]
  | cons c r ih =>
    simp only [List.mem_cons, not_or] at h
    simp only [textEnd]
    have : c ≠ '"' := fun e => h.1 e.symm
    simp only [this, if_false]
    exact ih _ _ h.2

theorem textEnd_candidate (b rest : List Char) (p : Bool) (pos : Nat) (best : Option Nat)
    (hq : QEsc p b = true) (hr : '"' ∉ rest) :
    textEnd (b ++ '"' :: rest) p pos best = some (pos + b.length + 1) := by
  cases he : endsBS p b with
  | false => exact textEnd_definitive b rest p pos best hq he
  | true =>
    induction b generalizing p pos best with
    | nil =>
      simp only [endsBS] at he
      simp only [List.nil_append, textEnd, he, if_true]
      rw [textEnd_noquote rest false (pos + 1) _ hr]
      simp
    | cons c b ih =>
      simp only [List.cons_append, textEnd]
      simp only [QEsc] at hq
      simp only [endsBS] at he
      by_cases h : c = '"'
      · rw [if_pos h] at hq
        rw [if_pos h]
        simp only [Bool.and_eq_true] at hq
        simp only [hq.1, if_true]
        subst h
        rw [ih false (pos + 1) _ hq.2 (by simpa using he)]
        simp only [List.length_cons]; congr 1; omega
      · rw [if_neg h] at hq
        rw [if_neg h]
        rw [ih _ (pos + 1) best hq he]
        simp only [List.length_cons]; congr 1; omega

theorem hexDigit_ne (d : Nat) (h : d < 16) : hexDigit d ≠ '"' ∧ hexDigit d ≠ '\\' := by
  have : ∀ d : Fin 16, hexDigit d.val ≠ '"' ∧ hexDigit d.val ≠ '\\' := by decide
  exact this ⟨d, h⟩

theorem QEsc_noquote (p : Bool) (l : List Char) (h : '"' ∉ l) : QEsc p l = true := by
  induction l generalizing p with
  | nil => rfl
  | cons c l ih =>
    simp only [List.mem_cons, not_or] at h
    have : c ≠ '"' := fun e => h.1 e.symm
    simp only [QEsc, this, if_false]
    exact ih _ h.2

theorem endsBS_nobs (p : Bool) (l : List Char) (hne : l ≠ []) (h : '\\' ∉ l) : endsBS p l = false := by
  induction l generalizing p with
  | nil => exact absurd rfl hne
  | cons c l ih =>
    simp only [List.mem_cons, not_or] at h
    have hc : c ≠ '\\' := fun e => h.1 e.symm
    simp only [endsBS]
    cases l with
    | nil => simp [endsBS, hc]
    | cons d l => exact ih _ (by simp) h.2

theorem hex2_clean (n : Nat) : '"' ∉ hex2 n ∧ '\\' ∉ hex2 n := by
  have h1 := hexDigit_ne (n / 16 % 16) (by omega)
  have h2 := hexDigit_ne (n % 16) (by omega)
  simp only [hex2, List.mem_cons, List.not_mem_nil, or_false, not_or]
  exact ⟨⟨h1.1.symm, h2.1.symm⟩, ⟨h1.2.symm, h2.2.symm⟩⟩

theorem hex4_clean (n : Nat) : '"' ∉ hex4 n ∧ '\\' ∉ hex4 n := by
  have a := hex2_clean (n / 256); have b := hex2_clean (n % 256)
  simp only [hex4, List.mem_append, not_or]; exact ⟨⟨a.1, b.1⟩, ⟨a.2, b.2⟩⟩

theorem hex8_clean (n : Nat) : '"' ∉ hex8 n ∧ '\\' ∉ hex8 n := by
  have a := hex4_clean (n / 65536); have b := hex4_clean (n % 65536)
  simp only [hex8, List.mem_append, not_or]; exact ⟨⟨a.1, b.1⟩, ⟨a.2, b.2⟩⟩

/-- an escaped rune never contains an unescaped quote … -/
theorem QEsc_escRune (pr : Char → Bool) (p : Bool) (c : Char) : QEsc p (escRune pr c) = true := by
  unfold escRune
  split
  · rename_i h; rcases h with h | h <;> subst h <;> simp [QEsc]
  · rename_i hq
    have hq1 : c ≠ '"' := fun h => hq (Or.inl h)
    repeat' split
    all_goals try simp [QEsc, hq1]
    · exact QEsc_noquote _ _ (hex2_clean _).1
    · exact QEsc_noquote _ _ (hex4_clean _).1
    · exact QEsc_noquote _ _ (hex8_clean _).1

/-- … and ends with a backslash exactly when the rune is a backslash -/
theorem endsBS_escRune (pr : Char → Bool) (p : Bool) (c : Char) :
    endsBS p (escRune pr c) = decide (c = '\\') := by
  unfold escRune
  split
  · rename_i h; rcases h with h | h <;> subst h <;> simp [endsBS]
  · rename_i hq
    have hq2 : c ≠ '\\' := fun h => hq (Or.inr h)
    repeat' split
    all_goals try simp [endsBS, hq2]
    · exact endsBS_nobs _ _ (by simp [hex2]) (hex2_clean _).2
    · exact endsBS_nobs _ _ (by simp [hex4, hex2]) (hex4_clean _).2
    · exact endsBS_nobs _ _ (by simp [hex8, hex4, hex2]) (hex8_clean _).2

theorem QEsc_escBody (pr : Char → Bool) (p : Bool) (s : List Char) : QEsc p (escBody pr s) = true := by
  induction s generalizing p with
  | nil => simp [escBody, QEsc]
  | cons c s ih =>
    simp only [escBody, List.flatMap_cons] at *
    rw [QEsc_append, QEsc_escRune, ih]; rfl

theorem endsBS_escBody (pr : Char → Bool) (p : Bool) (s : List Char) :
    endsBS p (escBody pr s) = match s.getLast? with | none => p | some c => decide (c = '\\') := by
  induction s generalizing p with
  | nil => simp [escBody, endsBS]
  | cons c s ih =>
    simp only [escBody, List.flatMap_cons] at *
    rw [endsBS_append, ih, endsBS_escRune]
    cases s with
    | nil => simp
    | cons d s =>
      cases h : (d :: s).getLast? with
      | none => simp at h
      | some x => simp [List.getLast?_cons_cons, h]

theorem QEsc_escRuneSafe (pr : Char → Bool) (p : Bool) (c : Char) : QEsc p (escRuneSafe pr c) = true := by
  unfold escRuneSafe
  split
  · simp [QEsc]
  · exact QEsc_escRune pr p c

theorem endsBS_escRuneSafe (pr : Char → Bool) (p : Bool) (c : Char) :
    endsBS p (escRuneSafe pr c) = false := by
  unfold escRuneSafe
  split
  · simp [endsBS]
  · rename_i h; rw [endsBS_escRune]; simp [h]

theorem QEsc_escBodySafe (pr : Char → Bool) (p : Bool) (s : List Char) :
    QEsc p (escBodySafe pr s) = true := by
  induction s generalizing p with
  | nil => simp [escBodySafe, QEsc]
  | cons c s ih =>
    simp only [escBodySafe, List.flatMap_cons] at *
    rw [QEsc_append, QEsc_escRuneSafe, ih]; rfl

theorem endsBS_escBodySafe (pr : Char → Bool) (s : List Char) :
    endsBS false (escBodySafe pr s) = false := by
  suffices ∀ p, endsBS p (escBodySafe pr s) = (p && s.isEmpty) by simpa using this false
  intro p
  induction s generalizing p with
  | nil => simp [escBodySafe, endsBS]
  | cons c s ih =>
    simp only [escBodySafe, List.flatMap_cons] at *
    rw [endsBS_append, ih, endsBS_escRuneSafe]; simp

theorem lexText_of_end (b rest : List Char)
    (h : textEnd (b ++ '"' :: rest) false 0 none = some (b.length + 1)) :
    lexText ('"' :: (b ++ '"' :: rest)) = some ('"' :: (b ++ ['"']), rest) := by
  have e : b ++ '"' :: rest = (b ++ ['"']) ++ rest := by simp
  simp only [lexText, h]
  rw [e]
  have hl : (b ++ ['"']).length = b.length + 1 := by simp
  rw [← hl, List.take_left, List.drop_left]

end GoflowModel.LexText
