import GoflowModel.Lemmas.EngineParents
/-!
The live runs of a session form the chain from the current run up through its ancestors.
Abstract part: statements about a status function `σ` and a parent list `P` only.
-/
namespace GoflowModel.Engine

/-- `j` is a proper ancestor of `i` along the parent links -/
inductive Anc (P : List (Option Nat)) : Nat → Nat → Prop where
  | parent {i p} : P[i]? = some (some p) → Anc P i p
  | step {i p j} : P[i]? = some (some p) → Anc P p j → Anc P i j

/-- parent-before-child on a bare parent list -/
def PBCl (P : List (Option Nat)) : Prop := ∀ (i p : Nat), P[i]? = some (some p) → p < i

theorem Anc.lt {P : List (Option Nat)} (hp : PBCl P) {i j : Nat} (h : Anc P i j) : j < i := by
  induction h with
  | parent hpar => exact hp _ _ hpar
  | step hpar _ ih => have := hp _ _ hpar; omega

/-- ancestors of the parent are ancestors; and an ancestor is the parent or an ancestor of it -/
theorem Anc.cases_parent {P : List (Option Nat)} {i p j : Nat} (hpar : P[i]? = some (some p)) (h : Anc P i j) :
    j = p ∨ Anc P p j := by
  cases h with
  | parent h' => rw [hpar] at h'; cases h'; exact Or.inl rfl
  | step h' hrest => rw [hpar] at h'; cases h'; exact Or.inr hrest

theorem Anc.no_parent {P : List (Option Nat)} {i j : Nat} (hpar : ∀ p, P[i]? ≠ some (some p)) (h : Anc P i j) : False := by
  cases h with
  | parent h' => exact hpar _ h'
  | step h' _ => exact hpar _ h'

/-- appending a run does not change who is whose ancestor among the old runs -/
theorem Anc.append_old {P : List (Option Nat)} (x : Option Nat) {i j : Nat} (hi : i < P.length)
    (hp : PBCl P) : Anc (P ++ [x]) i j ↔ Anc P i j := by
  constructor
  · intro h
    induction h with
    | @parent i p hpar =>
      rw [List.getElem?_append_left hi] at hpar
      exact .parent hpar
    | @step i p j hpar _ ih =>
      rw [List.getElem?_append_left hi] at hpar
      have := hp _ _ hpar
      exact .step hpar (ih (by omega))
  · intro h
    induction h with
    | @parent i p hpar =>
      have : i < P.length := by
        rcases Nat.lt_or_ge i P.length with h | h
        · exact h
        · rw [List.getElem?_eq_none h] at hpar; cases hpar
      exact .parent (by rw [List.getElem?_append_left this]; exact hpar)
    | @step i p j hpar _ ih =>
      have hlt : i < P.length := by
        rcases Nat.lt_or_ge i P.length with h | h
        · exact h
        · rw [List.getElem?_eq_none h] at hpar; cases hpar
      have := hp _ _ hpar
      exact .step (by rw [List.getElem?_append_left hlt]; exact hpar) (ih (by omega))

/-- the parent of an ancestor is an ancestor -/
theorem Anc.trans_parent {P : List (Option Nat)} {i m p : Nat} (hm : Anc P i m) (hmp : P[m]? = some (some p)) : Anc P i p := by
  induction hm with
  | parent h1 => exact .step h1 (.parent hmp)
  | step h1 _ ih => exact .step h1 (ih hmp)

abbrev Stat := Nat → Option RunStatus

/-- the chain invariant at the head of the loop, with current run `cur` -/
structure CH (σ : Stat) (P : List (Option Nat)) (cur : Nat) : Prop where
  noWaiting : ∀ i, σ i ≠ some .waiting
  activeOnChain : ∀ i, σ i = some .active → i = cur ∨ Anc P cur i
  closed : ∀ m p, Anc P cur m → P[m]? = some (some p) → σ p = some .active → σ m = some .active

/-- L1: the current run's own status changes (not to waiting) -/
theorem CH.change_cur {σ σ' : Stat} {P : List (Option Nat)} {cur : Nat} (h : CH σ P cur) (hp : PBCl P)
    (hother : ∀ i, i ≠ cur → σ' i = σ i) (hnw : σ' cur ≠ some .waiting) : CH σ' P cur := by
  refine ⟨?_, ?_, ?_⟩
  · intro i
    by_cases hi : i = cur
    · subst hi; exact hnw
    · rw [hother i hi]; exact h.noWaiting i
  · intro i hi
    by_cases hic : i = cur
    · exact Or.inl hic
    · rw [hother i hic] at hi; exact h.activeOnChain i hi
  · intro m p hm hpar hpa
    have hmlt := hm.lt hp
    have hplt := hp _ _ hpar
    rw [hother p (by omega)] at hpa
    rw [hother m (by omega)]
    exact h.closed m p hm hpar hpa

/-- L2: the current run is no longer active and control moves to its parent -/
theorem CH.to_parent {σ : Stat} {P : List (Option Nat)} {cur p : Nat} (h : CH σ P cur)
    (hpar : P[cur]? = some (some p)) (hna : σ cur ≠ some .active) : CH σ P p := by
  refine ⟨h.noWaiting, ?_, ?_⟩
  · intro i hi
    rcases h.activeOnChain i hi with rfl | ha
    · exact absurd hi hna
    · exact ha.cases_parent hpar
  · intro m q hm hq hqa
    exact h.closed m q (.step hpar hm) hq hqa

/-- L3: a child of the (active) current run is pushed -/
theorem CH.push {σ σ' : Stat} {P : List (Option Nat)} {cur : Nat} (h : CH σ P cur) (hp : PBCl P)
    (hcur : cur < P.length) (hact : σ cur = some .active)
    (hold : ∀ i, i < P.length → σ' i = σ i) (hnew : σ' P.length = some .active)
    (hout : ∀ i, P.length < i → σ' i = none) (hout0 : ∀ i, P.length ≤ i → σ i = none) :
    CH σ' (P ++ [some cur]) P.length := by
  have hparN : (P ++ [some cur])[P.length]? = some (some cur) := by simp
  refine ⟨?_, ?_, ?_⟩
  · intro i
    rcases Nat.lt_trichotomy i P.length with hi | hi | hi
    · rw [hold i hi]; exact h.noWaiting i
    · subst hi; rw [hnew]; simp
    · rw [hout i hi]; simp
  · intro i hi
    rcases Nat.lt_trichotomy i P.length with hlt | heq | hgt
    · rw [hold i hlt] at hi
      right
      rcases h.activeOnChain i hi with rfl | ha
      · exact .parent hparN
      · exact .step hparN ((Anc.append_old _ hcur hp).2 ha)
    · exact Or.inl heq
    · rw [hout i hgt] at hi; cases hi
  · intro m p hm hpar hpa
    -- m is cur or an old ancestor of cur
    have hm' := hm.cases_parent hparN
    have hmlt : m < P.length := by
      rcases hm' with rfl | ha
      · exact hcur
      · have := ((Anc.append_old _ hcur hp).1 ha).lt hp; omega
    rw [List.getElem?_append_left hmlt] at hpar
    have hplt := hp _ _ hpar
    rw [hold p (by omega)] at hpa
    rw [hold m hmlt]
    rcases hm' with rfl | ha
    · exact hact
    · exact h.closed m p ((Anc.append_old _ hcur hp).1 ha) hpar hpa

/-- L3′: every run is exited (terminal flow) and a fresh run is pushed -/
theorem CH.push_terminal {σ' : Stat} {P : List (Option Nat)} (cur : Nat)
    (hold : ∀ i, i < P.length → σ' i = some .completed) (hnew : σ' P.length = some .active)
    (hout : ∀ i, P.length < i → σ' i = none) (hp : PBCl P) (hcur : cur < P.length) :
    CH σ' (P ++ [some cur]) P.length := by
  refine ⟨?_, ?_, ?_⟩
  · intro i
    rcases Nat.lt_trichotomy i P.length with hi | hi | hi
    · rw [hold i hi]; simp
    · subst hi; rw [hnew]; simp
    · rw [hout i hi]; simp
  · intro i hi
    rcases Nat.lt_trichotomy i P.length with hlt | heq | hgt
    · rw [hold i hlt] at hi; cases hi
    · exact Or.inl heq
    · rw [hout i hgt] at hi; cases hi
  · intro m p hm hpar hpa
    have hparN : (P ++ [some cur])[P.length]? = some (some cur) := by simp
    have hm' := hm.cases_parent hparN
    have hmlt : m < P.length := by
      rcases hm' with rfl | ha
      · exact hcur
      · have := ((Anc.append_old _ hcur hp).1 ha).lt hp; omega
    rw [List.getElem?_append_left hmlt] at hpar
    have hplt := hp _ _ hpar
    rw [hold p (by omega)] at hpa; cases hpa

/-- at the end: the current run is not active and its parent (if any) is not active either —
then no run at all is active -/
theorem CH.none_active {σ : Stat} {P : List (Option Nat)} {cur : Nat} (h : CH σ P cur)
    (hna : σ cur ≠ some .active) (hpar : ∀ p, P[cur]? = some (some p) → σ p ≠ some .active) :
    ∀ i, σ i ≠ some .active := by
  intro i hi
  rcases h.activeOnChain i hi with rfl | ha
  · exact hna hi
  · -- walk up from cur: nobody on the chain is active
    have key : ∀ m, (m = cur ∨ Anc P cur m) → σ m ≠ some .active → ∀ j, Anc P m j → σ j ≠ some .active := by
      intro m hm hmna j hj
      induction hj with
      | @parent m p hmp =>
        intro hpa
        rcases hm with rfl | hm
        · exact hpar p hmp hpa
        · exact hmna (h.closed m p hm hmp hpa)
      | @step m p j hmp _ ih =>
        have hpna : σ p ≠ some .active := by
          intro hpa
          rcases hm with rfl | hm
          · exact hpar p hmp hpa
          · exact hmna (h.closed m p hm hmp hpa)
        have hpc : p = cur ∨ Anc P cur p := by
          rcases hm with rfl | hm
          · exact Or.inr (.parent hmp)
          · exact Or.inr (Anc.trans_parent hm hmp)
        exact ih hpc hpna
    exact key cur (Or.inl rfl) hna i ha hi

end GoflowModel.Engine

namespace GoflowModel.Engine

/-! ### what each operation does to the run statuses -/

/-- only run `r`'s status may differ -/
def Fr (r : Nat) (s s' : Session) : Prop := ∀ i, i ≠ r → runStatus s' i = runStatus s i

theorem Fr.refl (r : Nat) (s : Session) : Fr r s s := fun _ _ => rfl
theorem Fr.trans {r : Nat} {s s' s'' : Session} (h1 : Fr r s s') (h2 : Fr r s' s'') : Fr r s s'' :=
  fun i hi => by rw [h2 i hi, h1 i hi]
theorem Fr.of_eq {r : Nat} {s s' : Session} (h : ∀ i, runStatus s' i = runStatus s i) : Fr r s s' := fun i _ => h i

theorem runStatus_setRun_other (s : Session) (r : Nat) (f : Run → Run) (i : Nat) (h : i ≠ r) :
    runStatus (modifyRun s r f) i = runStatus s i := by
  rw [runStatus_modifyRun]
  simp only [runStatus]
  congr 1
  funext x
  rw [if_neg (fun e => h e.symm)]

theorem runStatus_setRun_same (s : Session) (r : Nat) (f : Run → Run) (st : RunStatus) (hf : ∀ x, (f x).status = st) :
    runStatus (modifyRun s r f) r = runStatus s r ∨ runStatus (modifyRun s r f) r = some st := by
  rw [runStatus_modifyRun]
  cases h : s.runs[r]? with
  | none => left; simp [runStatus, h]
  | some x => right; simp [hf]

theorem Fr_exitRun (s : Session) (r : Nat) (st : RunStatus) : Fr r s (exitRun s r st) :=
  fun i hi => runStatus_setRun_other _ _ _ _ hi
theorem Fr_setStatus (s : Session) (r : Nat) (st : RunStatus) : Fr r s (setStatus s r st) :=
  fun i hi => runStatus_setRun_other _ _ _ _ hi
theorem Fr_failRun (st : St) (r : Nat) (step : Option StepRef) : Fr r st.s (failRun st r step).s := by
  intro i hi
  unfold failRun
  rw [runStatus_logEvent]
  exact runStatus_setRun_other _ _ _ _ hi

theorem failRun_stat (st : St) (r : Nat) (step : Option StepRef) :
    runStatus (failRun st r step).s r = runStatus st.s r ∨ runStatus (failRun st r step).s r = some .failed := by
  unfold failRun
  rw [runStatus_logEvent]
  exact runStatus_setRun_same _ _ _ .failed (fun _ => rfl)

/-- `pickNodeExit`: other runs untouched; run `r` keeps its status or is failed -/
def PickFr (st : St) (r : Nat) : PickResult → Prop
  | .ok st' _ => Fr r st.s st'.s ∧ (runStatus st'.s r = runStatus st.s r ∨ runStatus st'.s r = some .failed)
  | _ => True

theorem pickNodeExit_fr (st : St) (r : Nat) (node : Node) (step : StepRef) (evs : List EvK) (c : RouteChoice) :
    PickFr st r (pickNodeExit st r node step evs c) := by
  have hl := (logEvents_props st r (some step) evs).2.1
  have hfr : Fr r st.s (logEvents st r (some step) evs).s := Fr.of_eq hl
  unfold pickNodeExit
  simp only
  repeat' split
  all_goals first
    | trivial
    | (simp only [PickFr]
       refine ⟨hfr.trans (Fr_failRun _ _ _), ?_⟩
       rcases failRun_stat (logEvents st r (some step) evs) r (some step) with h | h
       · left; rw [h, hl]
       · right; exact h)
    | (simp only [PickFr]
       exact ⟨Fr.of_eq (fun i => by rw [runStatus_leave, hl]), Or.inl (by rw [runStatus_leave, hl])⟩)

end GoflowModel.Engine

namespace GoflowModel.Engine

/-- `pickNodeExit` keeps the session status and what is pushed -/
def PickKeeps (st : St) : PickResult → Prop
  | .ok st' _ => st'.s.status = st.s.status ∧ st'.s.pushed = st.s.pushed
  | _ => True

theorem pickNodeExit_keeps (st : St) (r : Nat) (node : Node) (step : StepRef) (evs : List EvK) (c : RouteChoice) :
    PickKeeps st (pickNodeExit st r node step evs c) := by
  have hl := logEvents_props st r (some step) evs
  have h1 : (logEvents st r (some step) evs).s.status = st.s.status := hl.2.2.2
  have h2 : (logEvents st r (some step) evs).s.pushed = st.s.pushed := hl.2.2.1
  unfold pickNodeExit
  simp only
  split
  · split
    · trivial
    · exact ⟨by rw [failRun_status, h1], by rw [failRun_pushed, h2]⟩
    · split
      · exact ⟨h1, h2⟩
      · trivial
    · trivial
  · split
    · split
      · split
        · exact ⟨h1, h2⟩
        · trivial
      · split
        · exact ⟨h1, h2⟩
        · trivial
    · trivial

/-- what a visit does to the statuses: other runs untouched; the visited run keeps its status, is
failed, or — exactly when the session starts waiting — becomes waiting; with a flow pushed it is
unchanged -/
def VisitFr (st : St) (r : Nat) : VisitResult → Prop
  | .ok st' _ _ => Fr r st.s st'.s ∧
      ((st'.s.status = st.s.status ∧ (runStatus st'.s r = runStatus st.s r ∨ runStatus st'.s r = some .failed)) ∨
       (st'.s.status = .waiting ∧ runStatus st'.s r = (runStatus st.s r).map fun _ => RunStatus.waiting)) ∧
      (st'.s.pushed.isSome → runStatus st'.s r = runStatus st.s r)
  | _ => True

theorem runStatus_setStatus_same (s : Session) (r : Nat) (x : RunStatus) :
    runStatus (setStatus s r x) r = (runStatus s r).map fun _ => x := by
  unfold setStatus
  rw [runStatus_modifyRun]
  cases h : s.runs[r]? <;> simp [runStatus, h]

theorem visitTail_fr (st : St) (r : Nat) (node : Node) (step : StepRef) (vc : VisitChoice) :
    VisitFr st r (visitTail st r node step vc) := by
  unfold visitTail
  split
  · trivial
  · exact ⟨Fr.refl _ _, Or.inl ⟨rfl, Or.inl rfl⟩, fun _ => rfl⟩
  · refine ⟨?_, Or.inl ⟨rfl, ?_⟩, ?_⟩
    · exact fun i hi => runStatus_setRun_other _ _ _ _ hi
    · exact runStatus_setRun_same _ _ _ .failed (fun _ => rfl)
    · intro h; cases h
  · split
    · exact ⟨Fr.refl _ _, Or.inl ⟨rfl, Or.inl rfl⟩, fun _ => rfl⟩
    · rename_i hp
      have hpn : st.s.pushed = none := by
        cases hq : st.s.pushed with
        | none => rfl
        | some q => simp [hq] at hp
      split
      · refine ⟨?_, Or.inr ⟨rfl, ?_⟩, ?_⟩
        · exact fun i hi => runStatus_setRun_other _ _ _ _ hi
        · exact runStatus_setStatus_same _ _ _
        · intro h
          have : (setStatus st.s r RunStatus.waiting).pushed = st.s.pushed := rfl
          simp only [this, hpn] at h; cases h
      · have hf := pickNodeExit_fr st r node step [] vc.route
        have hpp := pickNodeExit_keeps st r node step [] vc.route
        split
        · trivial
        · rename_i st' e heq
          rw [heq] at hf hpp
          simp only [PickFr] at hf
          simp only [PickKeeps] at hpp
          refine ⟨hf.1, Or.inl ⟨hpp.1, hf.2⟩, ?_⟩
          intro h; rw [hpp.2, hpn] at h; cases h
        · trivial

end GoflowModel.Engine

namespace GoflowModel.Engine

theorem visitNode_fr (st : St) (r nodeIdx : Nat) (node : Node) (vc : VisitChoice) :
    VisitFr st r (visitNode st r nodeIdx node vc) := by
  unfold visitNode
  simp only
  have hl := logEvents_props (createStep st r nodeIdx).1 r (some (createStep st r nodeIdx).2) vc.events
  generalize hst0 : setPushedOpt (logEvents (createStep st r nodeIdx).1 r (some (createStep st r nodeIdx).2) vc.events) vc.pushed = st0
  have hs : ∀ i, runStatus st0.s i = runStatus st.s i := by
    intro i
    subst hst0
    have : ∀ i, runStatus (logEvents (createStep st r nodeIdx).1 r (some (createStep st r nodeIdx).2) vc.events).s i = runStatus st.s i := by
      intro i; rw [hl.2.1]; simp only [createStep]; exact runStatus_appendStep _ _ _ _
    unfold setPushedOpt
    split
    · exact this i
    · exact this i
  have hss : st0.s.status = st.s.status := by
    subst hst0
    unfold setPushedOpt
    split
    · show (logEvents _ _ _ _).s.status = _; rw [hl.2.2.2]; rfl
    · rw [hl.2.2.2]; rfl
  have key := visitTail_fr st0 r node (createStep st r nodeIdx).2 vc
  revert key
  generalize visitTail st0 r node _ vc = res
  intro key
  cases res with
  | goErr _ => trivial
  | tapeErr _ => trivial
  | ok st' sp e =>
    obtain ⟨k1, k2, k3⟩ := key
    refine ⟨fun i hi => by rw [k1 i hi, hs i], ?_, fun h => by rw [k3 h, hs r]⟩
    rcases k2 with ⟨ka, kb⟩ | ⟨ka, kb⟩
    · exact Or.inl ⟨ka.trans hss, by rw [← hs r]; exact kb⟩
    · exact Or.inr ⟨ka, by rw [← hs r]; exact kb⟩

/-- `findResumeExit`: other runs untouched; run `r` keeps its status or is failed -/
def FindFr (st : St) (r : Nat) : FindResult → Prop
  | .ok st' _ => Fr r st.s st'.s ∧ (runStatus st'.s r = runStatus st.s r ∨ runStatus st'.s r = some .failed)
  | .err st' => Fr r st.s st'.s ∧ (runStatus st'.s r = runStatus st.s r ∨ runStatus st'.s r = some .failed)
  | .tapeErr _ => True

theorem findResumeExit_fr (a : Assets) (orc : Oracle) (st : St) (r : Nat) :
    FindFr st r (findResumeExit a orc st r) := by
  unfold findResumeExit
  split
  · exact ⟨Fr.refl _ _, Or.inl rfl⟩
  · split
    · exact ⟨Fr.refl _ _, Or.inl rfl⟩
    · rename_i step node _
      split
      · rename_i rr _
        have hf := pickNodeExit_fr st r node step rr.events rr.route
        split
        · rename_i st' heq
          -- a Go error: the events were logged, nothing else happened
          have hl := (logEvents_props st r (some step) rr.events).2.1
          unfold pickNodeExit at heq
          simp only at heq
          split at heq
          · split at heq
            · cases heq; exact ⟨Fr.of_eq hl, Or.inl (hl r)⟩
            · cases heq
            · split at heq <;> cases heq
            · cases heq
          · split at heq
            · split at heq
              · split at heq <;> cases heq
              · split at heq <;> cases heq
            · cases heq
        · rename_i st' e heq
          rw [heq] at hf; exact hf
        · trivial
      · trivial

end GoflowModel.Engine

namespace GoflowModel.Engine

def stat (s : Session) : Stat := fun i => runStatus s i

/-- what clause (ii) says of a session handed back: when it waits, one run waits and the active
runs are exactly (some of) its ancestors, closed towards it; otherwise no run is active or waiting -/
structure FinalChain (s : Session) : Prop where
  waiting : s.status = .waiting → ∃ w, runStatus s w = some .waiting ∧ (∀ i, i ≠ w → runStatus s i ≠ some .waiting) ∧
      (∀ i, runStatus s i = some .active → Anc (parents s) w i) ∧
      (∀ m p, Anc (parents s) w m → (parents s)[m]? = some (some p) → runStatus s p = some .active → runStatus s m = some .active)
  done : s.status ≠ .waiting → ∀ i, runStatus s i ≠ some .active ∧ runStatus s i ≠ some .waiting

structure LC (l : Loop) : Prop where
  chain : ∀ c, l.cur = some c → CH (stat l.st.s) (parents l.st.s) c
  pushedActive : l.st.s.pushed.isSome → l.cur = none ∨ ∃ c, l.cur = some c ∧ runStatus l.st.s c = some .active
  fresh : l.cur = none → l.st.s.runs = []

theorem PBCl_of_PBC {s : Session} (h : PBC s) : PBCl (parents s) := h

theorem runStatus_lt {s : Session} {i : Nat} {x : RunStatus} (h : runStatus s i = some x) : i < s.runs.length := by
  simp only [runStatus] at h
  rcases Nat.lt_or_ge i s.runs.length with hl | hl
  · exact hl
  · rw [List.getElem?_eq_none hl] at h; cases h

theorem runStatus_ge {s : Session} {i : Nat} (h : s.runs.length ≤ i) : runStatus s i = none := by
  simp [runStatus, List.getElem?_eq_none h]

theorem runStatus_append (s : Session) (x : Run) (p : Option Pushed) (i : Nat) :
    runStatus { s with runs := s.runs ++ [x], pushed := p } i =
      if i < s.runs.length then runStatus s i else if i = s.runs.length then some x.status else none := by
  simp only [runStatus]
  split
  · rename_i h; rw [List.getElem?_append_left h]
  · rename_i h
    split
    · rename_i h2; subst h2; simp
    · rename_i h2
      rw [List.getElem?_eq_none (by simp; omega)]; rfl

theorem runStatus_exitAll (s : Session) (i : Nat) :
    runStatus (exitAll s) i = (runStatus s i).map fun _ => RunStatus.completed := by
  simp only [runStatus, exitAll, List.getElem?_map, Option.map_map]
  cases s.runs[i]? <;> rfl

theorem parents_append (s : Session) (x : Run) (p : Option Pushed) :
    parents { s with runs := s.runs ++ [x], pushed := p } = parents s ++ [x.parent] := by
  simp [parents]

end GoflowModel.Engine

namespace GoflowModel.Engine

theorem pickDest_chain (a : Assets) (l : Loop) (hi : LI l) (hp : LP l) (hc : LC l) :
    LC (pickDest a l).1 ∧ (pickDest a l).1.st.s.pushed = none ∧
    ((pickDest a l).2.isSome → ∃ c, (pickDest a l).1.cur = some c ∧ runStatus (pickDest a l).1.st.s c = some .active) := by
  unfold pickDest
  split
  · rename_i p hpush
    simp only
    have hpa := hc.pushedActive (by simp [hpush])
    -- the session the new run is appended to
    generalize hs0 : (if p.terminal = true then exitAll l.st.s else l.st.s) = s0
    have hlen0 : s0.runs.length = l.st.s.runs.length := by
      subst hs0; split
      · exact exitAll_length _
      · rfl
    have hpar0 : parents s0 = parents l.st.s := by
      subst hs0; split
      · exact parents_exitAll _
      · rfl
    have hnew : runStatus { s0 with runs := s0.runs ++ [⟨p.flow, l.cur, .active, false, [], []⟩], pushed := none } s0.runs.length = some .active := by
      rw [runStatus_append]; simp
    refine ⟨⟨?_, by simp, by simp⟩, trivial, fun _ => ⟨s0.runs.length, rfl, hnew⟩⟩
    intro c hcc
    simp only [Option.some.injEq] at hcc
    subst hcc
    show CH (stat _) (parents _) s0.runs.length
    rw [parents_append, hpar0]
    have hplen : (parents l.st.s).length = s0.runs.length := by rw [parents_length, hlen0]
    rcases hpa with hnone | ⟨c, hcur, hact⟩
    · -- the very first run
      have hruns := hc.fresh hnone
      have hp0 : parents l.st.s = [] := by simp [parents, hruns]
      have hl0 : s0.runs.length = 0 := by rw [hlen0, hruns]; rfl
      simp only [hnone, hp0, List.nil_append, hl0]
      refine ⟨?_, ?_, ?_⟩
      · intro i
        simp only [stat]
        rw [runStatus_append]
        simp only [hl0, Nat.not_lt_zero, if_false]
        split <;> simp
      · intro i hia
        simp only [stat] at hia
        rw [runStatus_append] at hia
        simp only [hl0, Nat.not_lt_zero, if_false] at hia
        split at hia
        · left; assumption
        · cases hia
      · intro m q hm
        exact absurd hm (fun h => Anc.no_parent (by intro q; cases m <;> simp) h)
    · simp only [hcur]
      rw [← hplen]
      have hclt : c < (parents l.st.s).length := by rw [parents_length]; exact hp.curValid c hcur
      by_cases hterm : p.terminal = true
      · -- every run exited, then a fresh one
        apply CH.push_terminal c _ _ _ (PBCl_of_PBC hp.pbc) hclt
        · intro i hi'
          simp only [stat]
          rw [runStatus_append, if_pos (by omega)]
          subst hs0
          rw [if_pos hterm, runStatus_exitAll]
          have : i < l.st.s.runs.length := by rw [parents_length] at hi'; exact hi'
          simp [runStatus, List.getElem?_eq_getElem this]
        · simp only [stat]; rw [hplen, runStatus_append]; simp
        · intro i hi'
          simp only [stat]
          rw [runStatus_append, if_neg (by omega), if_neg (by omega)]
      · have hs0' : s0 = l.st.s := by subst hs0; rw [if_neg hterm]
        apply CH.push (hc.chain c hcur) (PBCl_of_PBC hp.pbc) hclt hact
        · intro i hi'
          simp only [stat]
          rw [runStatus_append, if_pos (by omega), hs0']
        · simp only [stat]; rw [hplen, runStatus_append]; simp
        · intro i hi'
          simp only [stat]
          rw [runStatus_append, if_neg (by omega), if_neg (by omega)]
        · intro i hi'
          exact runStatus_ge (by rw [parents_length] at hi'; exact hi')
  · rename_i hpn
    have hpush : l.st.s.pushed = none := hpn
    split
    · rename_i d hex
      refine ⟨⟨hc.chain, by simp [hpush], hc.fresh⟩, hpush, ?_⟩
      intro _
      exact (hi.exitActive (by simp [hex])).2
    · refine ⟨⟨hc.chain, by simp [hpush], hc.fresh⟩, hpush, ?_⟩
      intro h; cases h

end GoflowModel.Engine

namespace GoflowModel.Engine

def IterChain : Sum Loop Result → Prop
  | .inl l' => LC l'
  | .inr (.ok st) => FinalChain st.s
  | .inr _ => True

theorem CH.stat_congr {σ σ' : Stat} {P : List (Option Nat)} {c : Nat} (h : CH σ P c) (he : ∀ i, σ' i = σ i) : CH σ' P c := by
  have : σ' = σ := funext he
  rw [this]; exact h

theorem parent_of_bind {s : Session} {cur p : Nat} (h : (s.runs[cur]?).bind (·.parent) = some p) :
    (parents s)[cur]? = some (some p) := by
  simp only [parents, List.getElem?_map]
  cases hx : s.runs[cur]? with
  | none => simp [hx] at h
  | some x => simp [hx] at h ⊢; exact h

theorem no_parent_of_bind {s : Session} {cur : Nat} (h : (s.runs[cur]?).bind (·.parent) = none) :
    ∀ p, (parents s)[cur]? ≠ some (some p) := by
  intro p hp
  simp only [parents, List.getElem?_map] at hp
  cases hx : s.runs[cur]? with
  | none => simp [hx] at hp
  | some x => simp [hx] at h hp; rw [h] at hp; cases hp

/-- a finished session: nobody active, nobody waiting -/
theorem FinalChain.of_done {s : Session} (x : SessStatus) (hx : x ≠ .waiting)
    (h : ∀ i, runStatus s i ≠ some .active ∧ runStatus s i ≠ some .waiting) : FinalChain { s with status := x } :=
  ⟨fun hw => absurd hw hx, fun _ => h⟩

theorem noDest_chain (a : Assets) (orc : Oracle) (l : Loop) (cur : Nat) (hi : LI l) (hp : LP l) (hc : LC l)
    (hcur : l.cur = some cur) (hpush : l.st.s.pushed = none) : IterChain (noDest a orc l cur) := by
  have hcv := hp.curValid cur hcur
  have hch := hc.chain cur hcur
  unfold noDest
  simp only
  generalize hs : (if ((l.st.s.runs[cur]?).map (·.exited)).getD true then l.st.s else exitRun l.st.s cur .completed) = s
  have hps : parents s = parents l.st.s := by
    subst hs; split
    · rfl
    · exact parents_exitRun _ _ _
  have hfr : Fr cur l.st.s s := by
    subst hs; split
    · exact Fr.refl _ _
    · exact Fr_exitRun _ _ _
  have hcurst : runStatus s cur ≠ some .active ∧ runStatus s cur ≠ some .waiting := by
    subst hs
    have hx : ∃ x, l.st.s.runs[cur]? = some x := ⟨l.st.s.runs[cur], List.getElem?_eq_getElem hcv⟩
    obtain ⟨x, hx⟩ := hx
    split
    · rename_i hex
      simp only [hx, Option.map_some, Option.getD_some] at hex
      have hok := hi.ok cur x hx
      have hend : Ended x.status := hok.1 hex
      simp only [runStatus, hx, Option.map_some]
      rcases hend with h | h | h <;> rw [h] <;> simp
    · have : runStatus (exitRun l.st.s cur .completed) cur = some .completed := by
        unfold exitRun; rw [runStatus_modifyRun]; simp [hx]
      rw [this]; simp
  have hpbc : PBCl (parents l.st.s) := PBCl_of_PBC hp.pbc
  have hch1 : CH (stat s) (parents s) cur := by
    rw [hps]
    exact hch.change_cur hpbc (fun i hi' => hfr i hi') hcurst.2
  have hspush : s.pushed = none := by
    subst hs; split
    · exact hpush
    · exact hpush
  split
  · rename_i p hpar
    have hparP := parent_of_bind hpar
    have hplt : p < cur := by rw [hps] at hparP; exact hpbc _ _ hparP
    split
    · rename_i hpact
      have hchp : CH (stat s) (parents s) p := hch1.to_parent hparP hcurst.1
      have hpbc' : PBCl (parents s) := by rw [hps]; exact hpbc
      -- continue in the parent: whatever happens next only touches the parent's status
      have mk : ∀ (st' : St) (e : Option (Option Nat)) (stp : Option StepRef) (n : Int), parents st'.s = parents s →
          Fr p s st'.s → runStatus st'.s p ≠ some .waiting → st'.s.pushed = none →
          LC { st := st', cur := some p, exit := e, step := stp, n := n } := by
        intro st' e stp n hpe hfr' hnw hpn
        refine ⟨?_, by simp [hpn], by simp⟩
        intro c hcc
        simp only [Option.some.injEq] at hcc
        subst hcc
        show CH (stat st'.s) (parents st'.s) _
        rw [hpe]
        exact hchp.change_cur hpbc' (fun i hi' => hfr' i hi') hnw
      have failNW : ∀ (st0 : St) (stp : Option StepRef), runStatus st0.s p = some .active ∨ runStatus st0.s p = some .failed →
          runStatus (failRun st0 p stp).s p ≠ some .waiting := by
        intro st0 stp h0
        rcases failRun_stat st0 p stp with h | h
        · rw [h]; rcases h0 with h0 | h0 <;> rw [h0] <;> simp
        · rw [h]; simp
      split
      · split
        · exact mk _ _ _ _ (parents_failRun _ _ _) (Fr_failRun _ _ _) (failNW _ _ (Or.inl hpact)) hspush
        · have hf := findResumeExit_fr a orc { l.st with s := s } p
          have hfp := findResumeExit_parents a orc { l.st with s := s } p
          have hfpost := findResumeExit_post a orc { l.st with s := s } p (by
            show SessOK s
            subst hs; split
            · exact hi.ok
            · exact SessOK_exitRun _ hi.ok (Or.inl rfl))
          split
          · rename_i st' heq
            rw [heq] at hf hfp hfpost
            simp only [FindFr] at hf
            simp only [FindParents] at hfp
            simp only [FindPost] at hfpost
            refine mk _ _ _ _ (by rw [parents_failRun]; exact hfp) (hf.1.trans (Fr_failRun _ _ _)) (failNW _ _ ?_) (by rw [failRun_pushed, hfpost.2.2]; exact hspush)
            rcases hf.2 with h | h
            · left; rw [h]; exact hpact
            · right; exact h
          · rename_i st' e heq
            rw [heq] at hf hfp hfpost
            simp only [FindFr] at hf
            simp only [FindParents] at hfp
            simp only [FindPost] at hfpost
            refine mk _ _ _ _ hfp hf.1 ?_ (by rw [hfpost.2.2.1]; exact hspush)
            rcases hf.2 with h | h
            · rw [h]; show runStatus s p ≠ _; rw [hpact]; simp
            · rw [h]; simp
          · trivial
      · exact mk _ _ _ _ (parents_failRun _ _ _) (Fr_failRun _ _ _) (failNW _ _ (Or.inl hpact)) hspush
    · -- the parent is not active: the session ends
      rename_i hpna
      show FinalChain _
      apply FinalChain.of_done
      · rcases endStatus_cases s cur with h | h <;> rw [h] <;> simp
      · intro i
        refine ⟨?_, hch1.noWaiting i⟩
        exact hch1.none_active hcurst.1 (fun q hq => by rw [hparP] at hq; cases hq; exact hpna) i
  · rename_i hnopar
    show FinalChain _
    apply FinalChain.of_done
    · rcases endStatus_cases s cur with h | h <;> rw [h] <;> simp
    · intro i
      refine ⟨?_, hch1.noWaiting i⟩
      exact hch1.none_active hcurst.1 (fun q hq => absurd hq (no_parent_of_bind hnopar q)) i

end GoflowModel.Engine

namespace GoflowModel.Engine

theorem goDest_chain (a : Assets) (o : Opts) (orc : Oracle) (l : Loop) (cur d : Nat) (hi : LI l) (hp : LP l) (hc : LC l)
    (hcur : l.cur = some cur) (hpush : l.st.s.pushed = none) (hact : runStatus l.st.s cur = some .active) :
    IterChain (goDest a o orc l cur d) := by
  have hch := hc.chain cur hcur
  have hpbc : PBCl (parents l.st.s) := PBCl_of_PBC hp.pbc
  unfold goDest
  simp only
  split
  · -- step limit: the current run is failed
    refine ⟨?_, by simp [failRun_pushed, hpush], by simp [hcur]⟩
    intro c hcc
    rw [hcur] at hcc; cases hcc
    show CH (stat (failRun l.st cur l.step).s) (parents (failRun l.st cur l.step).s) cur
    rw [parents_failRun]
    apply hch.change_cur hpbc (fun i hi' => Fr_failRun _ _ _ i hi')
    rcases failRun_stat l.st cur l.step with h | h
    · rw [h, hact]; simp
    · rw [h]; simp
  · split
    · trivial
    · rename_i node _
      split
      · rename_i vc _
        have hv := visitNode_fr l.st cur d node vc
        have hvp := visitNode_parents l.st cur d node vc
        split
        · trivial
        · trivial
        · rename_i st' step e heq
          rw [heq] at hv hvp
          simp only [VisitParents] at hvp
          obtain ⟨v1, v2, v3⟩ := hv
          split
          · -- the session starts waiting in the current run
            rename_i hw
            rcases v2 with ⟨va, _⟩ | ⟨_, vb⟩
            · exact absurd (va ▸ hw) hi.notWaiting
            · show FinalChain st'.s
              rw [hact] at vb
              refine ⟨fun _ => ⟨cur, vb, ?_, ?_, ?_⟩, fun hnw => absurd hw hnw⟩
              · intro i hi'
                rw [v1 i hi']; exact hch.noWaiting i
              · intro i hia
                have hic : i ≠ cur := by intro e; subst e; rw [vb] at hia; cases hia
                rw [v1 i hic] at hia
                rw [hvp]
                rcases hch.activeOnChain i hia with h | h
                · exact absurd h hic
                · exact h
              · intro m p hm hmp hpa
                rw [hvp] at hm hmp
                have hmlt := hm.lt hpbc
                have hplt := hpbc _ _ hmp
                rw [v1 p (by omega)] at hpa
                rw [v1 m (by omega)]
                exact hch.closed m p hm hmp hpa
          · rename_i hnw
            rcases v2 with ⟨_, vb⟩ | ⟨va, _⟩
            · refine ⟨?_, ?_, by simp [hcur]⟩
              · intro c hcc
                rw [hcur] at hcc; cases hcc
                show CH (stat st'.s) (parents st'.s) cur
                rw [hvp]
                apply hch.change_cur hpbc (fun i hi' => v1 i hi')
                rcases vb with h | h
                · rw [h, hact]; simp
                · rw [h]; simp
              · intro hps
                right
                exact ⟨cur, hcur, by rw [v3 hps]; exact hact⟩
            · exact absurd va hnw
      · trivial

theorem iter_chain (a : Assets) (o : Opts) (orc : Oracle) (l : Loop) (hi : LI l) (hp : LP l) (hc : LC l) :
    IterChain (iter a o orc l) := by
  have hpd := pickDest_chain a l hi hp hc
  have hpi0 := pickDest_post a l hi
  have hpi : LI (pickDest a l).1 :=
    ⟨hpi0.1, by rw [hpi0.2.2.2.1]; exact hi.notWaiting, fun he => by rw [hpi0.2.1] at he; cases he⟩
  have hpp := pickDest_parents a l hp
  unfold iter
  simp only
  split
  · trivial
  · rename_i cur hcur _
    exact noDest_chain a orc _ cur hpi hpp hpd.1 hcur hpd.2.1
  · rename_i cur d hcur hd
    obtain ⟨c, hc1, hc2⟩ := hpd.2.2 (by simp [hd])
    rw [hcur] at hc1; cases hc1
    exact goDest_chain a o orc _ cur d hpi hpp hpd.1 hcur hpd.2.1 hc2

def ResChain : Result → Prop
  | .ok st => FinalChain st.s
  | _ => True

theorem loop_chain (a : Assets) (o : Opts) (orc : Oracle) (fuel : Nat) (l : Loop) (hi : LI l) (hp : LP l) (hc : LC l) :
    ResChain (loop a o orc fuel l) := by
  induction fuel generalizing l with
  | zero => simp [loop, ResChain]
  | succ fuel ih =>
    simp only [loop]
    have h1 := iter_chain a o orc l hi hp hc
    have h2 := iter_post a o orc l hi
    have h3 := iter_parents a o orc l hp
    split
    · rename_i l' heq
      rw [heq] at h1 h2 h3
      exact ih l' h2 h3 h1
    · rename_i r heq
      rw [heq] at h1
      cases r <;> first | exact h1 | trivial

end GoflowModel.Engine

namespace GoflowModel.Engine

theorem start_chain (a : Assets) (o : Opts) (orc : Oracle) : ResChain (start a o orc) := by
  unfold start
  simp only
  split
  · trivial
  · apply loop_chain
    · refine ⟨?_, ?_, by simp⟩
      · unfold SessOK; intro i x hx; simp [logSprintOnly, emptySession] at hx
      · simp [logSprintOnly, emptySession]
    · refine ⟨?_, by simp⟩
      simp [PBC, parents, logSprintOnly, emptySession]
    · refine ⟨by simp, fun _ => Or.inl rfl, fun _ => ?_⟩
      simp [logSprintOnly, emptySession]

/-- `failSession`: nobody is left active or waiting -/
theorem failSession_final (st : St) (w : Nat) : FinalChain (failSession st w).s := by
  refine ⟨fun h => ?_, fun _ i => ?_⟩
  · simp [failSession] at h
  · simp only [failSession, runStatus, List.getElem?_map]
    cases hx : (failRun st w none).s.runs[i]? with
    | none => simp
    | some x =>
      simp only [Option.map_some]
      by_cases hl : x.status = .active ∨ x.status = .waiting
      · simp [hl]
      · simp only [hl, if_false]
        constructor
        · intro e; simp only [Option.some.injEq] at e; exact hl (Or.inl e)
        · intro e; simp only [Option.some.injEq] at e; exact hl (Or.inr e)

theorem baseApply_stat (orc : Oracle) (st : St) (r : Nat) (step : StepRef) :
    Fr r st.s (baseApply orc st r step).s ∧ runStatus (baseApply orc st r step).s r ≠ some .waiting ∧
    (runStatus st.s r ≠ some .waiting → runStatus (baseApply orc st r step).s r = runStatus st.s r) := by
  unfold baseApply
  have hl := (logEvents_props st r (some step) orc.applyBase).2.1
  simp only
  split
  · rename_i hw
    refine ⟨fun i hi => by rw [Fr_setStatus _ _ _ i hi, hl], ?_, ?_⟩
    · rw [runStatus_setStatus_same, hw]; simp
    · intro hnw; rw [hl] at hw; exact absurd hw hnw
  · rename_i hw
    exact ⟨Fr.of_eq hl, hw, fun _ => hl r⟩

/-- `Resume.Apply`: only the resumed run changes, and it is no longer waiting -/
theorem applyResume_stat (orc : Oracle) (st : St) (r : Nat) (step : StepRef) (k : ResumeKind) :
    Fr r st.s (applyResume orc st r step k).s ∧ runStatus (applyResume orc st r step k).s r ≠ some .waiting := by
  unfold applyResume
  simp only
  have hg : ∀ st' : St, ∀ i, runStatus (logEvents st' r (some step) orc.applyGroups).s i = runStatus st'.s i :=
    fun st' => (logEvents_props st' r (some step) orc.applyGroups).2.1
  cases k with
  | msg =>
    have hb := baseApply_stat orc st r step
    refine ⟨fun i hi => by rw [hg, runStatus_logEvent, hb.1 i hi], ?_⟩
    rw [hg, runStatus_logEvent]; exact hb.2.1
  | timeout =>
    have hb := baseApply_stat orc (logEvent st r (some step) ⟨resumeEventKind .timeout, false⟩) r step
    refine ⟨fun i hi => by rw [hg, hb.1 i hi, runStatus_logEvent], ?_⟩
    rw [hg]; exact hb.2.1
  | dial =>
    have hb := baseApply_stat orc (logEvent st r (some step) ⟨resumeEventKind .dial, false⟩) r step
    refine ⟨fun i hi => by rw [hg, hb.1 i hi, runStatus_logEvent], ?_⟩
    rw [hg]; exact hb.2.1
  | expiration =>
    have hb := baseApply_stat orc (logEvent { st with s := exitRun st.s r .expired } r (some step) ⟨resumeEventKind .expiration, false⟩) r step
    refine ⟨fun i hi => by rw [hg, hb.1 i hi, runStatus_logEvent]; exact Fr_exitRun _ _ _ i hi, ?_⟩
    rw [hg]; exact hb.2.1

theorem waitingRun_spec (s : Session) (w : Nat) (h : waitingRun s = some w) : runStatus s w = some .waiting := by
  unfold waitingRun at h
  have := (List.findIdx?_eq_some_iff_getElem.1 h)
  obtain ⟨hlt, hw, _⟩ := this
  simp only [runStatus, List.getElem?_eq_getElem hlt, Option.map_some]
  simpa using hw

theorem resume_chain (a : Assets) (o : Opts) (orc : Oracle) (s : Session) (k : ResumeKind)
    (hok : SessOK s) (hpush : s.pushed = none) (hpbc : PBC s) (hfin : FinalChain s) :
    ResChain (resume a o orc s k) := by
  unfold resume
  simp only
  have hfs : ∀ (st : St) w, ResChain (.ok (failSession st w)) := fun st w => failSession_final st w
  split
  · trivial
  · rename_i hsw
    have hsw' : s.status = .waiting := by simpa using hsw
    split
    · trivial
    · rename_i w hw
      split
      · exact hfs _ w
      · split
        · exact hfs _ w
        · split
          · exact hfs _ w
          · rename_i step node _
            split
            · exact hfs _ w
            · split
              · trivial
              · -- the waiting run of the session is the one the chain is about
                obtain ⟨w', hw1, hw2, hw3, hw4⟩ := hfin.waiting hsw'
                have hww : w = w' := by
                  by_cases hne : w = w'
                  · exact hne
                  · exact absurd (waitingRun_spec s w hw) (hw2 w hne)
                subst hww
                have hwlt := waitingRun_lt s w hw
                have hs0 : ∀ i, runStatus ({ s with status := SessStatus.active } : Session) i = runStatus s i := fun _ => rfl
                have ha := applyResume_props orc ⟨{ s with status := .active }, []⟩ w step k hok
                have hap := parents_applyResume orc ⟨{ s with status := .active }, []⟩ w step k
                have has := applyResume_stat orc ⟨{ s with status := .active }, []⟩ w step k
                generalize applyResume orc ⟨{ s with status := .active }, []⟩ w step k = st1 at ha hap has
                have hp1 : parents st1.s = parents s := hap
                have hpb : PBCl (parents s) := PBCl_of_PBC hpbc
                -- the chain invariant with the resumed run as current
                have hch1 : CH (stat st1.s) (parents st1.s) w := by
                  rw [hp1]
                  refine ⟨?_, ?_, ?_⟩
                  · intro i
                    by_cases hiw : i = w
                    · subst hiw; exact has.2
                    · simp only [stat]; rw [has.1 i hiw]; exact hw2 i hiw
                  · intro i hia
                    by_cases hiw : i = w
                    · exact Or.inl hiw
                    · simp only [stat] at hia; rw [has.1 i hiw] at hia; exact Or.inr (hw3 i hia)
                  · intro m p hm hmp hpa
                    have hmlt := hm.lt hpb
                    have hplt := hpb _ _ hmp
                    simp only [stat] at hpa ⊢
                    rw [has.1 p (by omega)] at hpa
                    rw [has.1 m (by omega)]
                    exact hw4 m p hm hmp hpa
                have hf := findResumeExit_post a orc st1 w ha.1
                have hff := findResumeExit_fr a orc st1 w
                have hfp := findResumeExit_parents a orc st1 w
                split
                · exact hfs _ w
                · trivial
                · rename_i st' e heq
                  rw [heq] at hf hff hfp
                  simp only [FindPost] at hf
                  simp only [FindFr] at hff
                  simp only [FindParents] at hfp
                  have e1 : parents st'.s = parents s := by rw [hfp, hp1]
                  apply loop_chain
                  · refine ⟨hf.1, ?_, fun he => ⟨?_, w, rfl, hf.2.2.2 he⟩⟩
                    · rw [hf.2.1, ha.2.2]; simp
                    · rw [hf.2.2.1, ha.2.1]; exact hpush
                  · refine ⟨PBC_of_parents_eq e1 hpbc, ?_⟩
                    intro c hcc
                    simp only [Option.some.injEq] at hcc
                    subst hcc
                    have := congrArg List.length e1
                    simp only [parents, List.length_map] at this
                    show w < st'.s.runs.length
                    omega
                  · refine ⟨?_, ?_, by simp⟩
                    · intro c hcc
                      simp only [Option.some.injEq] at hcc
                      subst hcc
                      show CH (stat st'.s) (parents st'.s) w
                      rw [hfp]
                      apply hch1.change_cur (by rw [hp1]; exact hpb) (fun i hi' => hff.1 i hi')
                      rcases hff.2 with h | h
                      · rw [h]; exact has.2
                      · rw [h]; simp
                    · intro hps
                      rw [hf.2.2.1, ha.2.1, hpush] at hps; cases hps

end GoflowModel.Engine
