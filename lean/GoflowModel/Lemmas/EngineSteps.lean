import GoflowModel.Lemmas.Engine
/-! Step counting: how many steps a sprint can create (C05). -/
namespace GoflowModel.Engine

def totalSteps (s : Session) : Nat := (s.runs.map (·.path.length)).sum

theorem sum_map_modify (l : List Run) (r : Nat) (f : Run → Run) (g : Run → Nat)
    (h : ∀ x, g (f x) = g x) : ((l.modify r f).map g).sum = (l.map g).sum := by
  induction l generalizing r with
  | nil => simp
  | cons x l ih =>
    cases r with
    | zero => simp [List.modify_zero_cons, h]
    | succ r => simp [List.modify_succ_cons, ih]

theorem totalSteps_modifyRun_same (s : Session) (r : Nat) (f : Run → Run)
    (h : ∀ x, (f x).path.length = x.path.length) : totalSteps (modifyRun s r f) = totalSteps s := by
  simp only [totalSteps, modifyRun]
  exact sum_map_modify _ _ _ _ h

theorem sum_map_modify_le (l : List Run) (r : Nat) (f : Run → Run) (g : Run → Nat)
    (h : ∀ x, g (f x) ≤ g x + 1) : ((l.modify r f).map g).sum ≤ (l.map g).sum + 1 := by
  induction l generalizing r with
  | nil => simp
  | cons x l ih =>
    cases r with
    | zero => simp only [List.modify_zero_cons, List.map_cons, List.sum_cons]; have := h x; omega
    | succ r => simp only [List.modify_succ_cons, List.map_cons, List.sum_cons]; have := ih r; omega

theorem totalSteps_exitRun (s : Session) (r : Nat) (st : RunStatus) : totalSteps (exitRun s r st) = totalSteps s :=
  totalSteps_modifyRun_same _ _ _ (fun _ => rfl)
theorem totalSteps_setStatus (s : Session) (r : Nat) (st : RunStatus) : totalSteps (setStatus s r st) = totalSteps s :=
  totalSteps_modifyRun_same _ _ _ (fun _ => rfl)
theorem totalSteps_leave (s : Session) (r : Nat) (e : Option Nat) : totalSteps (leave s r e) = totalSteps s :=
  totalSteps_modifyRun_same _ _ _ (fun _ => by simp)
theorem totalSteps_logEvent (st : St) (r : Nat) (step : Option StepRef) (k : EvK) :
    totalSteps (logEvent st r step k).s = totalSteps st.s :=
  totalSteps_modifyRun_same _ _ _ (fun _ => rfl)
theorem totalSteps_logEvents (st : St) (r : Nat) (step : Option StepRef) (ks : List EvK) :
    totalSteps (logEvents st r step ks).s = totalSteps st.s := by
  unfold logEvents
  induction ks generalizing st with
  | nil => rfl
  | cons k ks ih => simp only [List.foldl_cons]; rw [ih, totalSteps_logEvent]
theorem totalSteps_failRun (st : St) (r : Nat) (step : Option StepRef) :
    totalSteps (failRun st r step).s = totalSteps st.s := by
  unfold failRun; rw [totalSteps_logEvent]; exact totalSteps_exitRun _ _ _
theorem totalSteps_exitAll (s : Session) : totalSteps (exitAll s) = totalSteps s := by
  simp only [totalSteps, exitAll, List.map_map]; rfl
theorem totalSteps_append_empty (s : Session) (x : Run) (p : Option Pushed) (hx : x.path = []) :
    totalSteps { s with runs := s.runs ++ [x], pushed := p } = totalSteps s := by
  simp [totalSteps, hx]
theorem totalSteps_setSess (s : Session) (x : SessStatus) : totalSteps { s with status := x } = totalSteps s := rfl
theorem totalSteps_setPushed (s : Session) (p : Option Pushed) : totalSteps { s with pushed := p } = totalSteps s := rfl

theorem totalSteps_createStep (st : St) (r nodeIdx : Nat) :
    totalSteps (createStep st r nodeIdx).1.s ≤ totalSteps st.s + 1 := by
  simp only [createStep, totalSteps, modifyRun]
  exact sum_map_modify_le _ _ _ _ (fun x => by simp)

/-- `pickNodeExit` creates no step -/
def PickSteps (n : Nat) : PickResult → Prop
  | .goErr st' => totalSteps st'.s = n
  | .ok st' _ => totalSteps st'.s = n
  | .tapeErr _ => True

theorem pickNodeExit_steps (st : St) (r : Nat) (node : Node) (step : StepRef) (evs : List EvK) (c : RouteChoice) :
    PickSteps (totalSteps st.s) (pickNodeExit st r node step evs c) := by
  have hl := totalSteps_logEvents st r (some step) evs
  unfold pickNodeExit
  simp only
  repeat' split
  all_goals simp only [PickSteps, totalSteps_failRun, totalSteps_leave, hl]

def VisitSteps (n : Nat) : VisitResult → Prop
  | .goErr st' => totalSteps st'.s ≤ n
  | .ok st' _ _ => totalSteps st'.s ≤ n
  | .tapeErr _ => True

theorem visitTail_steps (st : St) (r : Nat) (node : Node) (step : StepRef) (vc : VisitChoice) :
    VisitSteps (totalSteps st.s) (visitTail st r node step vc) := by
  unfold visitTail
  have hp := pickNodeExit_steps st r node step [] vc.route
  repeat' split
  all_goals first
    | (simp only [VisitSteps, totalSteps_setPushed, totalSteps_exitRun, totalSteps_setSess, totalSteps_setStatus]; done)
    | (simp only [VisitSteps, totalSteps_setPushed, totalSteps_exitRun, totalSteps_setSess, totalSteps_setStatus]; omega)
    | (rename_i heq; rw [heq] at hp; simp only [PickSteps] at hp; simp only [VisitSteps]; omega)
    | trivial

theorem visitNode_steps (st : St) (r nodeIdx : Nat) (node : Node) (vc : VisitChoice) :
    VisitSteps (totalSteps st.s + 1) (visitNode st r nodeIdx node vc) := by
  unfold visitNode
  simp only
  have h1 := totalSteps_createStep st r nodeIdx
  have h2 := totalSteps_logEvents (createStep st r nodeIdx).1 r (some (createStep st r nodeIdx).2) vc.events
  have h3 : totalSteps (setPushedOpt (logEvents (createStep st r nodeIdx).1 r (some (createStep st r nodeIdx).2) vc.events) vc.pushed).s ≤ totalSteps st.s + 1 := by
    unfold setPushedOpt
    split
    · show totalSteps (logEvents _ _ _ _).s ≤ _; omega
    · omega
  have := visitTail_steps (setPushedOpt (logEvents (createStep st r nodeIdx).1 r (some (createStep st r nodeIdx).2) vc.events) vc.pushed) r node (createStep st r nodeIdx).2 vc
  revert this
  generalize visitTail _ r node _ vc = res
  intro this
  cases res <;> simp only [VisitSteps] at this ⊢ <;> omega

def FindSteps (n : Nat) : FindResult → Prop
  | .err st' => totalSteps st'.s = n
  | .ok st' _ => totalSteps st'.s = n
  | .tapeErr _ => True

theorem findResumeExit_steps (a : Assets) (orc : Oracle) (st : St) (r : Nat) :
    FindSteps (totalSteps st.s) (findResumeExit a orc st r) := by
  unfold findResumeExit
  split
  · simp [FindSteps]
  · split
    · simp [FindSteps]
    · rename_i step node _
      split
      · rename_i rr _
        have hp := pickNodeExit_steps st r node step rr.events rr.route
        split
        · rename_i heq; rw [heq] at hp; exact hp
        · rename_i heq; rw [heq] at hp; exact hp
        · trivial
      · trivial

/-! ### the loop -/

def stepBudget (o : Opts) (n : Int) : Nat := (max 0 (min n o.maxSteps)).toNat
def maxBudget (o : Opts) : Nat := (max 0 o.maxSteps).toNat

theorem stepBudget_le (o : Opts) (n : Int) : stepBudget o n ≤ maxBudget o := by
  unfold stepBudget maxBudget; omega

structure LS (o : Opts) (T0 : Nat) (l : Loop) : Prop where
  nonneg : 0 ≤ l.n
  bound : totalSteps l.st.s ≤ T0 + stepBudget o l.n

def ResSteps (B : Nat) : Result → Prop
  | .ok st => totalSteps st.s ≤ B
  | .goErr st => totalSteps st.s ≤ B
  | _ => True

def IterSteps (o : Opts) (T0 : Nat) : Sum Loop Result → Prop
  | .inl l' => LS o T0 l'
  | .inr r => ResSteps (T0 + maxBudget o) r

theorem pickDest_steps (a : Assets) (l : Loop) :
    totalSteps (pickDest a l).1.st.s = totalSteps l.st.s ∧ (pickDest a l).1.n = l.n := by
  unfold pickDest
  split
  · simp only
    refine ⟨?_, trivial⟩
    split
    · rw [totalSteps_append_empty _ _ _ rfl, totalSteps_exitAll]
    · rw [totalSteps_append_empty _ _ _ rfl]
  · split <;> exact ⟨rfl, rfl⟩

theorem noDest_steps (a : Assets) (o : Opts) (orc : Oracle) (T0 : Nat) (l : Loop) (cur : Nat) (h : LS o T0 l) :
    IterSteps o T0 (noDest a orc l cur) := by
  have hb := stepBudget_le o l.n
  unfold noDest
  simp only
  generalize hs : (if ((l.st.s.runs[cur]?).map (·.exited)).getD true then l.st.s else exitRun l.st.s cur .completed) = s
  have hts : totalSteps s = totalSteps l.st.s := by
    subst hs; split
    · rfl
    · exact totalSteps_exitRun _ _ _
  have hbound := h.bound
  split
  · rename_i p _
    split
    · split
      · split
        · simp only [IterSteps]
          exact ⟨h.nonneg, by simp only [totalSteps_failRun]; omega⟩
        · have hf := findResumeExit_steps a orc { l.st with s := s } p
          split
          · rename_i st' heq
            rw [heq] at hf; simp only [FindSteps] at hf
            simp only [IterSteps]
            exact ⟨h.nonneg, by simp only [totalSteps_failRun]; omega⟩
          · rename_i st' e heq
            rw [heq] at hf; simp only [FindSteps] at hf
            simp only [IterSteps]
            exact ⟨h.nonneg, by simp only; omega⟩
          · trivial
      · simp only [IterSteps]
        exact ⟨h.nonneg, by simp only [totalSteps_failRun]; omega⟩
    · simp only [IterSteps, ResSteps, totalSteps_setSess]; omega
  · simp only [IterSteps, ResSteps, totalSteps_setSess]; omega

theorem goDest_steps (a : Assets) (o : Opts) (orc : Oracle) (T0 : Nat) (l : Loop) (cur d : Nat) (h : LS o T0 l) :
    IterSteps o T0 (goDest a o orc l cur d) := by
  have hb := stepBudget_le o l.n
  have hb' := stepBudget_le o (l.n + 1)
  have hbound := h.bound
  have hn := h.nonneg
  unfold goDest
  simp only
  split
  · -- limit reached: no step is created
    simp only [IterSteps]
    refine ⟨by simp only; omega, ?_⟩
    simp only [totalSteps_failRun]
    have : stepBudget o l.n ≤ stepBudget o (l.n + 1) := by unfold stepBudget; omega
    omega
  · rename_i hle
    have hgrow : stepBudget o l.n + 1 ≤ stepBudget o (l.n + 1) := by unfold stepBudget; omega
    split
    · simp only [IterSteps, ResSteps]; omega
    · rename_i node _
      split
      · rename_i vc _
        have hv := visitNode_steps l.st cur d node vc
        split
        · rename_i st' heq
          rw [heq] at hv; simp only [VisitSteps] at hv
          simp only [IterSteps, ResSteps]; omega
        · trivial
        · rename_i st' step e heq
          rw [heq] at hv; simp only [VisitSteps] at hv
          split
          · simp only [IterSteps, ResSteps]; omega
          · simp only [IterSteps]
            exact ⟨by simp only; omega, by simp only; omega⟩
      · trivial

theorem iter_steps (a : Assets) (o : Opts) (orc : Oracle) (T0 : Nat) (l : Loop) (h : LS o T0 l) :
    IterSteps o T0 (iter a o orc l) := by
  have hp := pickDest_steps a l
  have h' : LS o T0 (pickDest a l).1 := ⟨by rw [hp.2]; exact h.nonneg, by rw [hp.1, hp.2]; exact h.bound⟩
  unfold iter
  simp only
  split
  · trivial
  · exact noDest_steps a o orc T0 _ _ h'
  · exact goDest_steps a o orc T0 _ _ _ h'

theorem loop_steps (a : Assets) (o : Opts) (orc : Oracle) (T0 : Nat) (fuel : Nat) (l : Loop) (h : LS o T0 l) :
    ResSteps (T0 + maxBudget o) (loop a o orc fuel l) := by
  induction fuel generalizing l with
  | zero => simp [loop, ResSteps]
  | succ fuel ih =>
    simp only [loop]
    have := iter_steps a o orc T0 l h
    split
    · rename_i l' heq; rw [heq] at this; exact ih l' this
    · rename_i r heq; rw [heq] at this; exact this

theorem start_steps (a : Assets) (o : Opts) (orc : Oracle) :
    ResSteps (maxBudget o) (start a o orc) := by
  unfold start
  simp only
  split
  · simp [ResSteps, totalSteps, logSprintOnly, emptySession]
  · have := loop_steps a o orc 0 (fuelFor o ({ (logSprintOnly ⟨emptySession, []⟩ orc.initEvents) with s := { (logSprintOnly ⟨emptySession, []⟩ orc.initEvents).s with pushed := some ⟨orc.initFlow, false⟩ } } : St).s)
      { st := { (logSprintOnly ⟨emptySession, []⟩ orc.initEvents) with s := { (logSprintOnly ⟨emptySession, []⟩ orc.initEvents).s with pushed := some ⟨orc.initFlow, false⟩ } }, cur := none, exit := none, step := none, n := 0 }
      ⟨by simp, by simp [totalSteps, logSprintOnly, emptySession]⟩
    simpa using this

theorem totalSteps_failSession (st : St) (w : Nat) : totalSteps (failSession st w).s = totalSteps st.s := by
  have key : ∀ l : List Run, ((l.map fun x : Run =>
      if x.status = .active ∨ x.status = .waiting then { x with status := .failed, exited := true } else x).map
        (·.path.length)) = l.map (·.path.length) := by
    intro l
    rw [List.map_map]
    apply List.map_congr_left
    intro x _
    simp only [Function.comp]
    split <;> rfl
  have := totalSteps_failRun st w none
  simp only [totalSteps] at this ⊢
  simp only [failSession]
  rw [key]; exact this

theorem totalSteps_baseApply (orc : Oracle) (st : St) (r : Nat) (step : StepRef) :
    totalSteps (baseApply orc st r step).s = totalSteps st.s := by
  unfold baseApply
  simp only
  split
  · rw [totalSteps_setStatus, totalSteps_logEvents]
  · rw [totalSteps_logEvents]

theorem totalSteps_applyResume (orc : Oracle) (st : St) (r : Nat) (step : StepRef) (k : ResumeKind) :
    totalSteps (applyResume orc st r step k).s = totalSteps st.s := by
  unfold applyResume
  simp only
  rw [totalSteps_logEvents]
  cases k <;> simp only [totalSteps_logEvent, totalSteps_baseApply, totalSteps_exitRun]

theorem resume_steps (a : Assets) (o : Opts) (orc : Oracle) (s : Session) (k : ResumeKind) :
    ResSteps (totalSteps s + maxBudget o) (resume a o orc s k) := by
  unfold resume
  simp only
  have hfs : ∀ w, ResSteps (totalSteps s + maxBudget o) (.ok (failSession ⟨s, []⟩ w)) := by
    intro w; simp only [ResSteps, totalSteps_failSession]; omega
  split
  · trivial
  · split
    · trivial
    · rename_i w _
      split
      · exact hfs w
      · split
        · exact hfs w
        · split
          · exact hfs w
          · rename_i step node _
            split
            · exact hfs w
            · split
              · trivial
              · have ha := totalSteps_applyResume orc ⟨{ s with status := .active }, []⟩ w step k
                have hf := findResumeExit_steps a orc (applyResume orc ⟨{ s with status := .active }, []⟩ w step k) w
                have hs : totalSteps ({ s with status := SessStatus.active } : Session) = totalSteps s := rfl
                split
                · rename_i st' heq
                  rw [heq] at hf; simp only [FindSteps] at hf
                  have e1 : totalSteps st'.s = totalSteps s := by rw [hf, ha]; exact hs
                  simp only [ResSteps, totalSteps_failSession]
                  omega
                · trivial
                · rename_i st' e heq
                  rw [heq] at hf; simp only [FindSteps] at hf
                  have e1 : totalSteps st'.s = totalSteps s := by rw [hf, ha]; exact hs
                  apply loop_steps
                  exact ⟨by simp, by simp only; unfold stepBudget; omega⟩

end GoflowModel.Engine
