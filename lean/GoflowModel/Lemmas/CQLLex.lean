import GoflowModel.ContactQL.Parser
import GoflowModel.Lemmas.CQL
/-!
The printed text of a query lexes to the tokens the printer model writes (`queryToks`): the bridge
from the token-level round trip (`Lemmas/CQLParse`) to a text-level one.

* every token consumes at least one character, so `lexAll`'s fuel (length + 1) always suffices
  (`lexAll_cons`, `lexAll_done`);
* each kind of printed token, followed by a space, a closing parenthesis or the end of the text, is
  the next token the lexer produces (`next_prop`, `next_cmp`, `next_value`, `next_sep`, parentheses).
-/
namespace GoflowModel.ContactQL
open GoflowModel Quote LexText

/-! ### fuel -/

theorem takeWhile_length_pos {p : Char → Bool} {c : Char} {r : List Char} (h : p c = true) :
    1 ≤ ((c :: r).takeWhile p).length := by
  simp [List.takeWhile_cons, h]

theorem tokenAt_shorter (cls : Cls) (inp : List Char) (t : Tok) (rest : List Char)
    (h : tokenAt cls inp = some (t, rest)) : rest.length < inp.length := by
  unfold tokenAt at h
  split at h
  · cases h
  all_goals first
    | (simp only [Option.some.injEq, Prod.mk.injEq] at h; obtain ⟨_, rfl⟩ := h; simp only [List.length_cons]; omega)
    | skip
  · -- string
    split at h
    · simp only [Option.some.injEq, Prod.mk.injEq] at h
      obtain ⟨_, rfl⟩ := h
      simp only [List.length_cons, List.length_drop]; omega
    · simp only [Option.some.injEq, Prod.mk.injEq] at h
      obtain ⟨_, rfl⟩ := h
      simp only [List.length_cons]; omega
  · -- text or error
    split at h
    · rename_i c r _ _ _ _ _ _ _ _ _ _ hc
      simp only [Option.some.injEq, Prod.mk.injEq] at h
      obtain ⟨_, rfl⟩ := h
      have := takeWhile_length_pos (r := r) hc
      simp only [List.length_drop, List.length_cons] at *
      omega
    · simp only [Option.some.injEq, Prod.mk.injEq] at h
      obtain ⟨_, rfl⟩ := h
      simp only [List.length_cons]; omega

theorem dropWhile_length_le (p : Char → Bool) (l : List Char) : (l.dropWhile p).length ≤ l.length := by
  induction l with
  | nil => simp
  | cons c r ih => simp only [List.dropWhile_cons]; split <;> simp <;> omega

theorem nextToken_shorter (cls : Cls) (inp : List Char) (t : Tok) (rest : List Char)
    (h : nextToken cls inp = some (t, rest)) : rest.length < inp.length := by
  unfold nextToken at h
  have := tokenAt_shorter cls _ t rest h
  have := dropWhile_length_le isWS inp
  omega

theorem lexAllAux_fuel (cls : Cls) : ∀ (n : Nat) (inp : List Char), inp.length < n → ∀ f, inp.length < f →
    lexAllAux cls f inp = lexAllAux cls n inp := by
  intro n
  induction n with
  | zero => intro inp h; omega
  | succ n ih =>
    intro inp h f hf
    cases f with
    | zero => omega
    | succ f =>
      simp only [lexAllAux]
      cases hn : nextToken cls inp with
      | none => rfl
      | some p =>
        obtain ⟨t, rest⟩ := p
        have := nextToken_shorter cls inp t rest hn
        simp only []
        rw [ih rest (by omega) f (by omega)]

theorem lexAll_cons (cls : Cls) (inp : List Char) (t : Tok) (rest : List Char)
    (h : nextToken cls inp = some (t, rest)) : lexAll cls inp = t :: lexAll cls rest := by
  have hs := nextToken_shorter cls inp t rest h
  unfold lexAll
  have e : lexAllAux cls (inp.length + 1) inp = t :: lexAllAux cls inp.length rest := by
    rw [lexAllAux, h]
  rw [e, lexAllAux_fuel cls (rest.length + 1) rest (by omega) inp.length hs]

theorem lexAll_done (cls : Cls) (inp : List Char) (h : nextToken cls inp = none) : lexAll cls inp = [] := by
  unfold lexAll
  simp only [lexAllAux, h]

theorem nextToken_space (cls : Cls) (inp : List Char) : nextToken cls (' ' :: inp) = nextToken cls inp := by
  simp [nextToken, isWS]

/-! ### character classes and what may follow a printed token -/

/-- what the lexer's character classes must say about the few ASCII characters the printer writes
(the real `UnicodeLetter` / `UnicodeDigit` do) -/
structure ClsOK (cls : Cls) : Prop where
  punct : ∀ c ∈ [' ', '\t', '\n', '\r', '(', ')', '!', '=', '~', '>', '<', '"'], cls.textChar c = false
  dotL : cls.letter '.' = false
  dotD : cls.digit '.' = false
  letters : ∀ c ∈ "fieldsurnANDOR".toList, cls.letter c = true
  digits : ∀ c, isAsciiDigit c = true → cls.digit c = true ∧ cls.letter c = false

/-- the predicate fails on the first character, if there is one -/
def Stops (p : Char → Bool) (rest : List Char) : Prop := ∀ c r, rest = c :: r → p c = false

/-- the text after a printed token: nothing, a space or a closing parenthesis -/
def Sep (rest : List Char) : Prop := rest = [] ∨ ∃ r, rest = ' ' :: r ∨ rest = ')' :: r

theorem keyChar_textChar {cls : Cls} {c : Char} (h : cls.keyChar c = true) : cls.textChar c = true := by
  simp [Cls.textChar, h]

theorem letter_keyChar {cls : Cls} {c : Char} (h : cls.letter c = true) : cls.keyChar c = true := by
  simp [Cls.keyChar, h]

theorem not_keyChar_of_not_textChar {cls : Cls} {c : Char} (h : cls.textChar c = false) : cls.keyChar c = false := by
  cases hk : cls.keyChar c with
  | false => rfl
  | true => rw [keyChar_textChar hk] at h; cases h

theorem not_letter_of_not_keyChar {cls : Cls} {c : Char} (h : cls.keyChar c = false) : cls.letter c = false := by
  cases hk : cls.letter c with
  | false => rfl
  | true => rw [letter_keyChar hk] at h; cases h

theorem sep_stops_text {cls : Cls} (ok : ClsOK cls) {rest : List Char} (h : Sep rest) : Stops cls.textChar rest := by
  intro c r e
  rcases h with rfl | ⟨r', rfl | rfl⟩
  · cases e
  · cases e; exact ok.punct ' ' (by simp)
  · cases e; exact ok.punct ')' (by simp)

theorem stops_key_of_text {cls : Cls} {rest : List Char} (h : Stops cls.textChar rest) : Stops cls.keyChar rest :=
  fun c r e => not_keyChar_of_not_textChar (h c r e)

theorem stops_letter_of_key {cls : Cls} {rest : List Char} (h : Stops cls.keyChar rest) : Stops cls.letter rest :=
  fun c r e => not_letter_of_not_keyChar (h c r e)

theorem takeWhile_append_stop {p : Char → Bool} : ∀ (w rest : List Char), (∀ c ∈ w, p c = true) → Stops p rest →
    (w ++ rest).takeWhile p = w
  | [], rest, _, hs => by
    cases rest with
    | nil => rfl
    | cons c r => simp [List.takeWhile_cons, hs c r rfl]
  | c :: w, rest, hall, hs => by
    have hc := hall c (by simp)
    simp only [List.cons_append, List.takeWhile_cons, hc, if_true]
    rw [takeWhile_append_stop w rest (fun x hx => hall x (by simp [hx])) hs]

theorem dot_not_keyChar {cls : Cls} (ok : ClsOK cls) : cls.keyChar '.' = false := by
  simp [Cls.keyChar, ok.dotL, ok.dotD]

theorem dot_textChar (cls : Cls) : cls.textChar '.' = true := by simp [Cls.textChar]

/-! ### words: everything that is neither punctuation nor a quoted value -/

def wordKind (cls : Cls) (inp : List Char) : TokKind :=
  let tlen := (inp.takeWhile cls.textChar).length
  let plen := propLen cls inp
  if tlen = 3 ∧ startsKw ['a', 'n', 'd'] inp then TokKind.and
  else if tlen = 2 ∧ startsKw ['o', 'r'] inp then TokKind.or
  else if tlen = 3 ∧ startsKw ['h', 'a', 's'] inp then TokKind.comparator
  else if tlen = 2 ∧ startsKw ['i', 's'] inp then TokKind.comparator
  else if plen = tlen then TokKind.property
  else TokKind.text

/-- at a text character the lexer takes the longest run of text characters -/
theorem tokenAt_word {cls : Cls} (ok : ClsOK cls) (c : Char) (r : List Char) (hc : cls.textChar c = true) :
    tokenAt cls (c :: r) =
      some (⟨wordKind cls (c :: r), (c :: r).take ((c :: r).takeWhile cls.textChar).length⟩,
        (c :: r).drop ((c :: r).takeWhile cls.textChar).length) := by
  have np : ∀ x ∈ [' ', '\t', '\n', '\r', '(', ')', '!', '=', '~', '>', '<', '"'], c ≠ x := by
    intro x hx e
    rw [e, ok.punct x hx] at hc; cases hc
  have h1 : c ≠ '(' := np _ (by simp)
  have h2 : c ≠ ')' := np _ (by simp)
  have h3 : c ≠ '!' := np _ (by simp)
  have h4 : c ≠ '=' := np _ (by simp)
  have h5 : c ≠ '~' := np _ (by simp)
  have h6 : c ≠ '>' := np _ (by simp)
  have h7 : c ≠ '<' := np _ (by simp)
  have h8 : c ≠ '"' := np _ (by simp)
  clear np
  unfold tokenAt
  split
  all_goals first
    | (rename_i heq; cases heq)
    | skip
  all_goals first
    | contradiction
    | skip
  simp only [hc, if_true, wordKind]

/-- a word `w` followed by something that is not a text character is taken whole -/
theorem tokenAt_word_whole {cls : Cls} (ok : ClsOK cls) (w rest : List Char) (hne : w ≠ [])
    (hall : ∀ c ∈ w, cls.textChar c = true) (hs : Stops cls.textChar rest) :
    tokenAt cls (w ++ rest) = some (⟨wordKind cls (w ++ rest), w⟩, rest) := by
  cases w with
  | nil => exact absurd rfl hne
  | cons c w' =>
    have htw := takeWhile_append_stop (c :: w') rest hall hs
    have := tokenAt_word ok c (w' ++ rest) (hall c (by simp))
    rw [List.cons_append, this]
    rw [← List.cons_append, htw]
    simp

/-! ### which kind of word -/

theorem startsKw_whole (kw w rest : List Char) (h : w.length = kw.length) :
    startsKw kw (w ++ rest) = (w.map lowerAscii == kw) := by
  unfold startsKw
  have h1 : kw.length ≤ (w ++ rest).length := by simp [List.length_append]; omega
  have h2 : (w ++ rest).take kw.length = w := by rw [← h]; exact List.take_left
  simp only [h2, decide_eq_true h1, Bool.true_and]

theorem startsKw_length (kw w rest : List Char) (h : startsKw kw (w ++ rest) = true) (hl : w.length = kw.length) :
    w.map lowerAscii = kw := by
  rw [startsKw_whole kw w rest hl] at h
  exact eq_of_beq h

/-- the word is none of the keywords `and`, `or`, `has`, `is` (in any case) -/
def kwFree (w : List Char) : Prop :=
  w.map lowerAscii ≠ ['a', 'n', 'd'] ∧ w.map lowerAscii ≠ ['o', 'r'] ∧ w.map lowerAscii ≠ ['h', 'a', 's'] ∧
    w.map lowerAscii ≠ ['i', 's']

theorem wordKind_plain (cls : Cls) (w rest : List Char) (hall : ∀ c ∈ w, cls.textChar c = true)
    (hs : Stops cls.textChar rest) (hk : kwFree w) :
    wordKind cls (w ++ rest) = if propLen cls (w ++ rest) = w.length then TokKind.property else TokKind.text := by
  unfold wordKind
  simp only [takeWhile_append_stop w rest hall hs]
  have n1 : ¬ (w.length = 3 ∧ startsKw ['a', 'n', 'd'] (w ++ rest) = true) := fun h => hk.1 (startsKw_length _ w rest h.2 h.1)
  have n2 : ¬ (w.length = 2 ∧ startsKw ['o', 'r'] (w ++ rest) = true) := fun h => hk.2.1 (startsKw_length _ w rest h.2 h.1)
  have n3 : ¬ (w.length = 3 ∧ startsKw ['h', 'a', 's'] (w ++ rest) = true) := fun h => hk.2.2.1 (startsKw_length _ w rest h.2 h.1)
  have n4 : ¬ (w.length = 2 ∧ startsKw ['i', 's'] (w ++ rest) = true) := fun h => hk.2.2.2 (startsKw_length _ w rest h.2 h.1)
  rw [if_neg n1, if_neg n2, if_neg n3, if_neg n4]

theorem kwFree_long (w : List Char) (h : 4 ≤ w.length) : kwFree w := by
  refine ⟨?_, ?_, ?_, ?_⟩ <;> intro e <;> have := congrArg List.length e <;> simp at this <;> omega

/-! ### the length of the longest `PROPERTY` match -/

theorem takeWhile_stop {p : Char → Bool} {rest : List Char} (h : Stops p rest) : rest.takeWhile p = [] := by
  cases rest with
  | nil => rfl
  | cons c r => simp [List.takeWhile_cons, h c r rfl]

theorem takeWhile_append_le {p : Char → Bool} : ∀ (w rest : List Char), Stops p rest →
    ((w ++ rest).takeWhile p).length ≤ w.length
  | [], rest, hs => by simp [takeWhile_stop hs]
  | c :: w, rest, hs => by
    simp only [List.cons_append, List.takeWhile_cons]
    split
    · have := takeWhile_append_le w rest hs
      simp only [List.length_cons]; omega
    · simp

/-- no `.` at position `n ≤ |w|` of `w ++ rest` when `w` has none and `rest` does not start with one -/
theorem no_dot_at (w rest : List Char) (hw : ∀ c ∈ w, c ≠ '.') (hr : ∀ c r, rest = c :: r → c ≠ '.') (n : Nat)
    (hn : n ≤ w.length) (X : List Char → Nat) :
    (match (w ++ rest).drop n with
      | '.' :: r => X r
      | _ => 0) = 0 := by
  rw [List.drop_append_of_le_length hn]
  cases hd : w.drop n with
  | nil =>
    simp only [List.nil_append]
    split
    · exact absurd rfl (hr _ _ rfl)
    · rfl
  | cons c t =>
    have hc : c ∈ w := List.mem_of_mem_drop (by rw [hd]; simp)
    simp only [List.cons_append]
    split
    · rename_i r heq
      simp only [List.cons.injEq] at heq
      exact absurd heq.1 (hw c hc)
    · rfl

theorem sep_no_dot {rest : List Char} (h : Sep rest) : ∀ c r, rest = c :: r → c ≠ '.' := by
  intro c r e
  rcases h with rfl | ⟨r', rfl | rfl⟩
  · cases e
  · cases e; decide
  · cases e; decide

/-- a word of key characters (a bare property key, a whole number): the whole word -/
theorem propLen_key {cls : Cls} (ok : ClsOK cls) (w rest : List Char) (hall : ∀ c ∈ w, cls.keyChar c = true)
    (hs : Sep rest) : propLen cls (w ++ rest) = w.length := by
  have st := sep_stops_text ok hs
  have sk := stops_key_of_text st
  have sl := stops_letter_of_key sk
  have hw : ∀ c ∈ w, c ≠ '.' := by
    intro c hc e
    have := hall c hc
    rw [e, dot_not_keyChar ok] at this; cases this
  unfold propLen
  simp only [takeWhile_append_stop w rest hall sk]
  have hl := takeWhile_append_le w rest sl
  have hnd : ∀ r, (w ++ rest).drop ((w ++ rest).takeWhile cls.letter).length ≠ '.' :: r := by
    intro r e
    have := no_dot_at w rest hw (sep_no_dot hs) _ hl (fun _ => 1)
    rw [e] at this
    simp at this
  generalize (w ++ rest).drop ((w ++ rest).takeWhile cls.letter).length = d at hnd
  split
  · split
    · rename_i r; exact absurd rfl (hnd r)
    · simp
  · simp

/-- `type.key` -/
theorem propLen_prefixed {cls : Cls} (ok : ClsOK cls) (pre key rest : List Char) (hpre : pre ≠ [])
    (hp : ∀ c ∈ pre, cls.letter c = true) (hkne : key ≠ []) (hk : ∀ c ∈ key, cls.keyChar c = true) (hs : Sep rest) :
    propLen cls ((pre ++ '.' :: key) ++ rest) = (pre ++ '.' :: key).length := by
  have st := sep_stops_text ok hs
  have sk := stops_key_of_text st
  have e : (pre ++ '.' :: key) ++ rest = pre ++ ('.' :: (key ++ rest)) := by simp
  have sdl : Stops cls.letter ('.' :: (key ++ rest)) := by
    intro c r h; cases h; exact ok.dotL
  have sdk : Stops cls.keyChar ('.' :: (key ++ rest)) := by
    intro c r h; cases h; exact dot_not_keyChar ok
  have h1 : (pre ++ ('.' :: (key ++ rest))).takeWhile cls.letter = pre := takeWhile_append_stop pre _ hp sdl
  have h2 : (pre ++ ('.' :: (key ++ rest))).takeWhile cls.keyChar = pre :=
    takeWhile_append_stop pre _ (fun c hc => letter_keyChar (hp c hc)) sdk
  have h3 : (key ++ rest).takeWhile cls.keyChar = key := takeWhile_append_stop key rest hk sk
  have hpl : 1 ≤ pre.length := List.length_pos_iff.2 hpre
  have hkl : 1 ≤ key.length := List.length_pos_iff.2 hkne
  unfold propLen
  rw [e]
  simp only [h1, h2, List.drop_left, h3]
  simp only [ge_iff_le, hpl, hkl, if_true, List.length_append, List.length_cons]
  have hm : pre.length ≤ pre.length + 1 + key.length := Nat.le_trans (Nat.le_add_right _ 1) (Nat.le_add_right _ _)
  rw [Nat.max_eq_left hm, Nat.add_assoc, Nat.add_comm 1]

/-! ### numbers -/

theorem digit_facts (c : Char) (h : isAsciiDigit c = true) :
    lowerAscii c = c ∧ c ≠ 'a' ∧ c ≠ 'o' ∧ c ≠ 'h' ∧ c ≠ 'i' ∧ c ≠ '.' := by
  simp only [isAsciiDigit, decide_eq_true_eq] at h
  obtain ⟨h1, h2⟩ := h
  have hA : ¬ ('A' ≤ c ∧ c ≤ 'Z') := by
    intro ⟨ha, _⟩
    exact absurd (Char.le_trans ha h2) (by decide)
  refine ⟨by simp [lowerAscii, hA], ?_, ?_, ?_, ?_, ?_⟩ <;> intro e <;> subst e
  · exact absurd h2 (by decide)
  · exact absurd h2 (by decide)
  · exact absurd h2 (by decide)
  · exact absurd h2 (by decide)
  · exact absurd h1 (by decide)

/-- a word that starts with a digit is no keyword -/
theorem kwFree_digit (c : Char) (w : List Char) (h : isAsciiDigit c = true) : kwFree (c :: w) := by
  obtain ⟨hl, ha, ho, hh, hi, _⟩ := digit_facts c h
  refine ⟨?_, ?_, ?_, ?_⟩ <;> intro e <;> simp only [List.map_cons, hl, List.cons.injEq] at e
  · exact ha e.1
  · exact ho e.1
  · exact hh e.1
  · exact hi e.1

theorem mem_takeWhile_holds {p : Char → Bool} : ∀ (l : List Char) (c : Char), c ∈ l.takeWhile p → p c = true
  | [], _, h => by simp at h
  | x :: l, c, h => by
    simp only [List.takeWhile_cons] at h
    split at h
    · simp only [List.mem_cons] at h
      rcases h with rfl | h
      · assumption
      · exact mem_takeWhile_holds l c h
    · simp at h

/-- the two shapes `isNumberRegex` admits -/
theorem isNumber_shape (v : List Char) (h : isNumber v = true) :
    (v ≠ [] ∧ (∀ c ∈ v, isAsciiDigit c = true)) ∨
    (∃ a f, v = a ++ '.' :: f ∧ a ≠ [] ∧ f ≠ [] ∧ (∀ c ∈ a, isAsciiDigit c = true) ∧ (∀ c ∈ f, isAsciiDigit c = true)) := by
  unfold isNumber at h
  simp only [Bool.and_eq_true, Bool.not_eq_true', Bool.or_eq_true] at h
  obtain ⟨ha, hr⟩ := h
  have hv : v = v.takeWhile isAsciiDigit ++ v.dropWhile isAsciiDigit := (List.takeWhile_append_dropWhile).symm
  have hane : v.takeWhile isAsciiDigit ≠ [] := by
    intro e; rw [e] at ha; simp at ha
  have hda : ∀ c ∈ v.takeWhile isAsciiDigit, isAsciiDigit c = true := fun c hc => mem_takeWhile_holds v c hc
  rcases hr with hr | hr
  · left
    have : v.dropWhile isAsciiDigit = [] := by simpa using hr
    rw [this, List.append_nil] at hv
    refine ⟨by rw [hv]; exact hane, ?_⟩
    intro c hc
    rw [hv] at hc
    exact hda c hc
  · right
    cases hd : v.dropWhile isAsciiDigit with
    | nil => rw [hd] at hr; simp at hr
    | cons d f =>
      rw [hd] at hr
      split at hr
      · rename_i f' heq
        simp only [List.cons.injEq] at heq
        obtain ⟨rfl, rfl⟩ := heq
        simp only [Bool.and_eq_true, Bool.not_eq_true', List.all_eq_true] at hr
        refine ⟨_, f, by rw [← hd]; exact hv, hane, ?_, hda, hr.2⟩
        intro e; rw [e] at hr; simp at hr
      · cases hr

theorem digit_keyChar {cls : Cls} (ok : ClsOK cls) {c : Char} (h : isAsciiDigit c = true) : cls.keyChar c = true := by
  simp [Cls.keyChar, (ok.digits c h).1]

/-- a number as `Condition.String()` writes it bare lexes to one token: `PROPERTY` for a whole number,
`TEXT` when it has a fraction -/
theorem tokenAt_number {cls : Cls} (ok : ClsOK cls) (v rest : List Char) (h : isNumber v = true) (hs : Sep rest) :
    tokenAt cls (v ++ rest) = some (⟨if v.contains '.' then .text else .property, v⟩, rest) := by
  have st := sep_stops_text ok hs
  rcases isNumber_shape v h with ⟨hne, hd⟩ | ⟨a, f, rfl, hane, hfne, hda, hdf⟩
  · have hall : ∀ c ∈ v, cls.keyChar c = true := fun c hc => digit_keyChar ok (hd c hc)
    have hkw : kwFree v := by
      cases v with
      | nil => exact absurd rfl hne
      | cons c w => exact kwFree_digit c w (hd c (by simp))
    have hnd : v.contains '.' = false := by
      cases hc : v.contains '.' with
      | false => rfl
      | true =>
        have : '.' ∈ v := by simpa using hc
        exact absurd rfl (digit_facts '.' (hd '.' this)).2.2.2.2.2
    rw [tokenAt_word_whole ok v rest hne (fun c hc => keyChar_textChar (hall c hc)) st,
      wordKind_plain cls v rest (fun c hc => keyChar_textChar (hall c hc)) st hkw, propLen_key ok v rest hall hs, hnd]
    simp
  · have hallA : ∀ c ∈ a, cls.keyChar c = true := fun c hc => digit_keyChar ok (hda c hc)
    have hallF : ∀ c ∈ f, cls.keyChar c = true := fun c hc => digit_keyChar ok (hdf c hc)
    have hall : ∀ c ∈ a ++ '.' :: f, cls.textChar c = true := by
      intro c hc
      simp only [List.mem_append, List.mem_cons] at hc
      rcases hc with hc | rfl | hc
      · exact keyChar_textChar (hallA c hc)
      · exact dot_textChar cls
      · exact keyChar_textChar (hallF c hc)
    have hne : a ++ '.' :: f ≠ [] := by simp
    have hkw : kwFree (a ++ '.' :: f) := by
      cases a with
      | nil => exact absurd rfl hane
      | cons c w => exact kwFree_digit c _ (hda c (by simp))
    have hcd : (a ++ '.' :: f).contains '.' = true := by simp
    -- the longest PROPERTY match stops at the dot
    have hp : propLen cls ((a ++ '.' :: f) ++ rest) = a.length := by
      have e : (a ++ '.' :: f) ++ rest = a ++ ('.' :: (f ++ rest)) := by simp
      have sdk : Stops cls.keyChar ('.' :: (f ++ rest)) := by
        intro c r h; cases h; exact dot_not_keyChar ok
      have hk : (a ++ ('.' :: (f ++ rest))).takeWhile cls.keyChar = a := takeWhile_append_stop a _ hallA sdk
      have hl : (a ++ ('.' :: (f ++ rest))).takeWhile cls.letter = [] := by
        cases a with
        | nil => exact absurd rfl hane
        | cons c w => simp [List.takeWhile_cons, (ok.digits c (hda c (by simp))).2]
      unfold propLen
      rw [e]
      simp [hk, hl]
    rw [tokenAt_word_whole ok _ rest hne hall st, wordKind_plain cls _ rest hall st hkw, hp, hcd]
    simp [List.length_append]

/-! ### comparators, keywords, parentheses -/

theorem tokenAt_cmp (cls : Cls) (op : Op) (rest : List Char) :
    tokenAt cls (op.text ++ ' ' :: rest) = some (⟨.comparator, op.text⟩, ' ' :: rest) := by
  cases op <;> simp [Op.text, tokenAt]

theorem tokenAt_sep {cls : Cls} (ok : ClsOK cls) (isAnd : Bool) (rest : List Char) :
    tokenAt cls ((sepTok isAnd).text ++ ' ' :: rest) = some (sepTok isAnd, ' ' :: rest) := by
  have st : Stops cls.textChar (' ' :: rest) := by
    intro c r h; cases h; exact ok.punct ' ' (by simp)
  cases isAnd
  · have hall : ∀ c ∈ "OR".toList, cls.textChar c = true := by
      intro c hc
      exact keyChar_textChar (letter_keyChar (ok.letters c (by
        simp only [String.toList] at hc ⊢
        revert hc; decide +revert)))
    rw [show (sepTok false).text = "OR".toList from rfl, tokenAt_word_whole ok _ _ (by decide) hall st]
    simp only [wordKind, takeWhile_append_stop _ _ hall st]
    simp [sepTok, startsKw, lowerAscii]
  · have hall : ∀ c ∈ "AND".toList, cls.textChar c = true := by
      intro c hc
      exact keyChar_textChar (letter_keyChar (ok.letters c (by
        simp only [String.toList] at hc ⊢
        revert hc; decide +revert)))
    rw [show (sepTok true).text = "AND".toList from rfl, tokenAt_word_whole ok _ _ (by decide) hall st]
    simp only [wordKind, takeWhile_append_stop _ _ hall st]
    simp [sepTok, startsKw, lowerAscii]

/-! ### conditions -/

/-- the key of a printed condition: key characters only (field keys, URN schemes and attribute names
are), and for an attribute — which is printed without a prefix — not one of the keywords -/
def KeyOK (cls : Cls) (c : Cond) : Prop :=
  c.key ≠ [] ∧ (∀ ch ∈ c.key, cls.keyChar ch = true) ∧ (c.ptype = .attr → kwFree c.key)

theorem tokenAt_prefixed {cls : Cls} (ok : ClsOK cls) (pre key rest : List Char) (hpre : pre ≠ [])
    (hp : ∀ c ∈ pre, cls.letter c = true) (hkne : key ≠ []) (hk : ∀ c ∈ key, cls.keyChar c = true) (hs : Sep rest) :
    tokenAt cls ((pre ++ '.' :: key) ++ rest) = some (⟨.property, pre ++ '.' :: key⟩, rest) := by
  have st := sep_stops_text ok hs
  have hall : ∀ c ∈ pre ++ '.' :: key, cls.textChar c = true := by
    intro c hc
    simp only [List.mem_append, List.mem_cons] at hc
    rcases hc with hc | rfl | hc
    · exact keyChar_textChar (letter_keyChar (hp c hc))
    · exact dot_textChar cls
    · exact keyChar_textChar (hk c hc)
  have hlen : 4 ≤ (pre ++ '.' :: key).length ∨ kwFree (pre ++ '.' :: key) := by
    right
    refine ⟨?_, ?_, ?_, ?_⟩ <;> intro e <;>
      (have hm : '.' ∈ (pre ++ '.' :: key).map lowerAscii := by
        simp only [List.map_append, List.map_cons, List.mem_append, List.mem_cons]
        right; left; simp [lowerAscii]
       rw [e] at hm; simp at hm)
  have hkw : kwFree (pre ++ '.' :: key) := by
    rcases hlen with h | h
    · exact kwFree_long _ h
    · exact h
  rw [tokenAt_word_whole ok _ rest (by simp) hall st, wordKind_plain cls _ rest hall st hkw,
    propLen_prefixed ok pre key rest hpre hp hkne hk hs]
  simp

theorem fields_letters : ∀ ch ∈ "fields".toList, ch ∈ "fieldsurnANDOR".toList := by decide
theorem urns_letters : ∀ ch ∈ "urns".toList, ch ∈ "fieldsurnANDOR".toList := by decide
theorem fields_split : "fields.".toList = "fields".toList ++ ['.'] := by decide
theorem urns_split : "urns.".toList = "urns".toList ++ ['.'] := by decide

theorem tokenAt_prop {cls : Cls} (ok : ClsOK cls) (c : Cond) (h : KeyOK cls c) (rest : List Char) (hs : Sep rest) :
    tokenAt cls (propText c ++ rest) = some (⟨.property, propText c⟩, rest) := by
  obtain ⟨pt, key, op, v⟩ := c
  obtain ⟨hne, hk, hkw⟩ := h
  simp only [] at hne hk hkw
  have st := sep_stops_text ok hs
  cases pt with
  | field =>
    have e : propText ⟨.field, key, op, v⟩ = "fields".toList ++ '.' :: key := by
      simp only [propText, fields_split, List.append_assoc, List.singleton_append]
    rw [e]
    exact tokenAt_prefixed ok _ _ rest (by decide) (fun ch hc => ok.letters ch (fields_letters ch hc)) hne hk hs
  | urn =>
    have e : propText ⟨.urn, key, op, v⟩ = "urns".toList ++ '.' :: key := by
      simp only [propText, urns_split, List.append_assoc, List.singleton_append]
    rw [e]
    exact tokenAt_prefixed ok _ _ rest (by decide) (fun ch hc => ok.letters ch (urns_letters ch hc)) hne hk hs
  | attr =>
    have e : propText ⟨.attr, key, op, v⟩ = key := rfl
    rw [e, tokenAt_word_whole ok _ rest hne (fun ch hc => keyChar_textChar (hk ch hc)) st,
      wordKind_plain cls _ rest (fun ch hc => keyChar_textChar (hk ch hc)) st (hkw rfl), propLen_key ok _ rest hk hs]
    simp

theorem tokenAt_value {cls : Cls} (ok : ClsOK cls) (pr : Char → Bool) (v rest : List Char) (hs : Sep rest) :
    tokenAt cls ((valueTok pr v).text ++ rest) = some (valueTok pr v, rest) := by
  unfold valueTok
  split
  · rename_i h
    exact tokenAt_number ok v rest h hs
  · have h := textEnd_definitive (valueBody pr v) rest false 0 none (valueBody_QEsc pr v) (valueBody_endsBS pr v)
    have e : quoteValue pr v ++ rest = '"' :: (valueBody pr v ++ '"' :: rest) := by
      rw [quoteValue_eq]; simp
    have e2 : valueBody pr v ++ '"' :: rest = (valueBody pr v ++ ['"']) ++ rest := by simp
    have hl : (valueBody pr v ++ ['"']).length = 0 + (valueBody pr v).length + 1 := by simp
    simp only []
    rw [e]
    simp only [tokenAt, h]
    rw [e2, ← hl, List.take_left, List.drop_left, quoteValue_eq]

theorem nextToken_nows (cls : Cls) (inp : List Char) (h : ∀ c r, inp = c :: r → isWS c = false) :
    nextToken cls inp = tokenAt cls inp := by
  unfold nextToken
  cases inp with
  | nil => rfl
  | cons c r => simp [h c r rfl]

/-- the text of a condition, as tokens -/
theorem condString_eq (pr : Char → Bool) (c : Cond) :
    condString pr c = propText c ++ ' ' :: (c.op.text ++ ' ' :: (valueTok pr c.value).text) := by
  obtain ⟨pt, key, op, v⟩ := c
  cases pt <;> simp only [condString, propText, valueTok] <;> split <;> simp

/-! ### from `tokenAt` to `nextToken` and `lexAll` -/

/-- a token that is not an error token does not start at white space, so `nextToken` finds it where
`tokenAt` does -/
theorem nextToken_eq_tokenAt {cls : Cls} (ok : ClsOK cls) (inp : List Char) (t : Tok) (r : List Char)
    (h : tokenAt cls inp = some (t, r)) (hk : t.kind ≠ .error) : nextToken cls inp = some (t, r) := by
  cases inp with
  | nil => simp [tokenAt] at h
  | cons c r' =>
    cases hw : isWS c with
    | false => rw [nextToken_nows cls _ (by intro c' r'' e; cases e; exact hw)]; exact h
    | true =>
      exfalso
      simp only [isWS, Bool.or_eq_true, decide_eq_true_eq] at hw
      rcases hw with ((rfl | rfl) | rfl) | rfl
      · simp [tokenAt, ok.punct ' ' (by simp)] at h; exact hk (by rw [← h.1])
      · simp [tokenAt, ok.punct '\t' (by simp)] at h; exact hk (by rw [← h.1])
      · simp [tokenAt, ok.punct '\n' (by simp)] at h; exact hk (by rw [← h.1])
      · simp [tokenAt, ok.punct '\r' (by simp)] at h; exact hk (by rw [← h.1])

theorem lexAll_tok {cls : Cls} (ok : ClsOK cls) (inp : List Char) (t : Tok) (r : List Char)
    (h : tokenAt cls inp = some (t, r)) (hk : t.kind ≠ .error) : lexAll cls inp = t :: lexAll cls r :=
  lexAll_cons cls inp t r (nextToken_eq_tokenAt ok inp t r h hk)

theorem lexAll_space (cls : Cls) (inp : List Char) : lexAll cls (' ' :: inp) = lexAll cls inp := by
  cases h : nextToken cls inp with
  | none => rw [lexAll_done cls inp h, lexAll_done cls _ (by rw [nextToken_space]; exact h)]
  | some p =>
    obtain ⟨t, r⟩ := p
    rw [lexAll_cons cls inp t r h, lexAll_cons cls _ t r (by rw [nextToken_space]; exact h)]

theorem lexAll_nil (cls : Cls) : lexAll cls [] = [] := rfl

theorem valueTok_kind (pr : Char → Bool) (v : List Char) : (valueTok pr v).kind ≠ .error := by
  unfold valueTok; split
  · split <;> simp
  · simp

/-- **a printed condition lexes to its three tokens** -/
theorem lex_cond {cls : Cls} (ok : ClsOK cls) (pr : Char → Bool) (c : Cond) (h : KeyOK cls c) (rest : List Char)
    (hs : Sep rest) : lexAll cls (condString pr c ++ rest) = condToks pr c ++ lexAll cls rest := by
  rw [condString_eq]
  have e : propText c ++ ' ' :: (c.op.text ++ ' ' :: (valueTok pr c.value).text) ++ rest =
      propText c ++ (' ' :: (c.op.text ++ ' ' :: ((valueTok pr c.value).text ++ rest))) := by simp
  rw [e]
  rw [lexAll_tok ok _ _ _ (tokenAt_prop ok c h _ (Or.inr ⟨_, Or.inl rfl⟩)) (by simp)]
  rw [lexAll_space, lexAll_tok ok _ _ _ (tokenAt_cmp cls c.op _) (by simp)]
  rw [lexAll_space, lexAll_tok ok _ _ _ (tokenAt_value ok pr c.value rest hs) (valueTok_kind pr c.value)]
  simp [condToks]

/-! ### `ClsOK` from finitely many facts -/

theorem digit_cases (c : Char) (h : isAsciiDigit c = true) : c ∈ "0123456789".toList := by
  simp only [isAsciiDigit, decide_eq_true_eq] at h
  obtain ⟨h1, h2⟩ := h
  have a1 : 48 ≤ c.toNat := UInt32.le_iff_toNat_le.1 (Char.le_def.1 h1)
  have a2 : c.toNat ≤ 57 := UInt32.le_iff_toNat_le.1 (Char.le_def.1 h2)
  have hc : Char.ofNat c.toNat = c := Char.ofNat_toNat c
  have : c.toNat = 48 ∨ c.toNat = 49 ∨ c.toNat = 50 ∨ c.toNat = 51 ∨ c.toNat = 52 ∨ c.toNat = 53 ∨ c.toNat = 54 ∨
      c.toNat = 55 ∨ c.toNat = 56 ∨ c.toNat = 57 := by omega
  rcases this with e | e | e | e | e | e | e | e | e | e <;> rw [e] at hc <;> rw [← hc] <;> decide

/-- `ClsOK` is a statement about 37 characters -/
theorem ClsOK.of_finite (cls : Cls)
    (punct : ∀ c ∈ [' ', '\t', '\n', '\r', '(', ')', '!', '=', '~', '>', '<', '"'], cls.textChar c = false)
    (dotL : cls.letter '.' = false) (dotD : cls.digit '.' = false)
    (letters : ∀ c ∈ "fieldsurnANDOR".toList, cls.letter c = true)
    (digits : ∀ c ∈ "0123456789".toList, cls.digit c = true ∧ cls.letter c = false) : ClsOK cls :=
  ⟨punct, dotL, dotD, letters, fun c h => digits c (digit_cases c h)⟩

/-! ### combinations and whole queries -/

mutual
  /-- every condition of the query has a lexable key; every combination has a child -/
  def LexOK (cls : Cls) : Node → Prop
    | .cond c => KeyOK cls c
    | .comb _ cs => cs ≠ [] ∧ LexOKL cls cs
  def LexOKL (cls : Cls) : List Node → Prop
    | [] => True
    | n :: ns => LexOK cls n ∧ LexOKL cls ns
end

def sepText (a : Bool) : List Char := if a then " AND ".toList else " OR ".toList

theorem sepText_eq (a : Bool) : sepText a = ' ' :: ((sepTok a).text ++ [' ']) := by
  cases a <;> decide

theorem tokenAt_lparen (cls : Cls) (r : List Char) : tokenAt cls ('(' :: r) = some (⟨.lparen, ['(']⟩, r) := by
  simp [tokenAt]

theorem tokenAt_rparen (cls : Cls) (r : List Char) : tokenAt cls (')' :: r) = some (⟨.rparen, [')']⟩, r) := by
  simp [tokenAt]

theorem sepTok_kind (a : Bool) : (sepTok a).kind ≠ .error := by cases a <;> simp [sepTok]

mutual
  /-- **a printed node lexes to its tokens**, whatever follows it in the printed query -/
  theorem lex_node {cls : Cls} (ok : ClsOK cls) (pr : Char → Bool) :
      ∀ (n : Node), LexOK cls n → ∀ rest, Sep rest → lexAll cls (nodeString pr n ++ rest) = nodeToks pr n ++ lexAll cls rest
    | .cond c, h, rest, hs => by
      simp only [LexOK] at h
      simpa [nodeString, nodeToks] using lex_cond ok pr c h rest hs
    | .comb a cs, h, rest, hs => by
      simp only [LexOK] at h
      have e : nodeString pr (.comb a cs) ++ rest = '(' :: (joinSep (sepText a) (nodesString pr cs) ++ (')' :: rest)) := by
        simp [nodeString, sepText]
      rw [e, lexAll_tok ok _ _ _ (tokenAt_lparen cls _) (by simp),
        lex_join ok pr a cs h.1 h.2 (')' :: rest) (Or.inr ⟨_, Or.inr rfl⟩),
        lexAll_tok ok _ _ _ (tokenAt_rparen cls rest) (by simp)]
      simp [nodeToks]
  theorem lex_join {cls : Cls} (ok : ClsOK cls) (pr : Char → Bool) (a : Bool) :
      ∀ (cs : List Node), cs ≠ [] → LexOKL cls cs → ∀ rest, Sep rest →
        lexAll cls (joinSep (sepText a) (nodesString pr cs) ++ rest) = joinToks pr a cs ++ lexAll cls rest
    | [], h, _, _, _ => absurd rfl h
    | [n], _, h, rest, hs => by
      simp only [LexOKL] at h
      simpa [nodesString, joinSep, joinToks] using lex_node ok pr n h.1 rest hs
    | n :: m :: r, _, h, rest, hs => by
      simp only [LexOKL] at h
      have e : joinSep (sepText a) (nodesString pr (n :: m :: r)) ++ rest =
          nodeString pr n ++ (' ' :: ((sepTok a).text ++ ' ' :: (joinSep (sepText a) (nodesString pr (m :: r)) ++ rest))) := by
        simp [nodesString, joinSep, sepText_eq]
      rw [e, lex_node ok pr n h.1 _ (Or.inr ⟨_, Or.inl rfl⟩), lexAll_space,
        lexAll_tok ok _ _ _ (tokenAt_sep ok a _) (sepTok_kind a), lexAll_space,
        lex_join ok pr a (m :: r) (by simp) h.2 rest hs]
      simp [joinToks]
end

/-- **The printed text of a query lexes to the tokens of the printer model.** -/
theorem lex_stringify {cls : Cls} (ok : ClsOK cls) (pr : Char → Bool) (n : Node) (h : LexOK cls n) :
    lexAll cls (stringify pr (some n)) = queryToks pr n := by
  cases n with
  | cond c =>
    have hs : stringify pr (some (.cond c)) = condString pr c := by
      have hn : nodeString pr (.cond c) = condString pr c := by simp [nodeString]
      have hh : (condString pr c).head? ≠ some '(' := by
        rw [condString_eq]
        simp only [LexOK] at h
        obtain ⟨pt, key, op, v⟩ := c
        have hne := h.1
        simp only [] at hne
        cases key with
        | nil => exact absurd rfl hne
        | cons k ks =>
          have hk := h.2.1 k (by simp)
          have : k ≠ '(' := by
            intro e; rw [e] at hk
            rw [not_keyChar_of_not_textChar (ok.punct '(' (by simp))] at hk; cases hk
          cases pt <;> simp [propText, this] <;> decide
      unfold stringify
      simp only []
      split
      · rename_i hc; rw [hn] at hc; exact absurd hc.1 hh
      · exact hn
    have := lex_node ok pr (.cond c) h [] (Or.inl rfl)
    simp only [List.append_nil, nodeString, lexAll_nil] at this
    rw [hs, this]; rfl
  | comb a cs =>
    simp only [LexOK] at h
    have hs : stringify pr (some (.comb a cs)) = joinSep (sepText a) (nodesString pr cs) := by
      -- `Stringify` removes exactly the enclosing parentheses
      have key : ∀ body : List Char,
          (if (['('] ++ body ++ [')']).head? = some '(' ∧ (['('] ++ body ++ [')']).getLast? = some ')' then
            ((['('] ++ body ++ [')']).drop 1).dropLast else ['('] ++ body ++ [')']) = body := by
        intro body
        have h1 : (['('] ++ body ++ [')']).head? = some '(' := by simp
        have h2 : (['('] ++ body ++ [')']).getLast? = some ')' := by
          rw [List.getLast?_append]; simp
        rw [if_pos ⟨h1, h2⟩]
        simp
      simp only [stringify, nodeString, sepText]
      exact key _
    have := lex_join ok pr a cs h.1 h.2 [] (Or.inl rfl)
    simp only [List.append_nil, lexAll_nil] at this
    rw [hs, this]; rfl

end GoflowModel.ContactQL
