import GoflowModel.Lemmas.ExprParseFull
import GoflowModel.Lemmas.Quote
import GoflowModel.Lemmas.NumValue
import GoflowModel.Excellent.Eval
/-!
Whatever the parser returns is in the shape `Shape` — up to the case of the names, which printing
lowers (`norm`).  Together with completeness this closes the loop: for every token list the parser
accepts, printing the tree and parsing the printed tokens gives the same tree with lowered names.
-/
namespace GoflowModel.Expr.Full
open GoflowModel.Expr

theorem toLower_idem (c : Char) : c.toLower.toLower = c.toLower := by
  simp only [Char.toLower]
  split
  · split
    · next h1 h2 =>
      simp only [UInt32.le_iff_toNat_le, UInt32.toNat_add, seval] at h1 h2
      omega
    · simp
  · rfl

theorem lowerName_idem (n : List Char) : lowerName (lowerName n) = lowerName n := by
  simp [lowerName, toLower_idem]

mutual
  /-- references with their names lowered, as the printer writes them -/
  def norm : Expr → Expr
    | .ref n => .ref (lowerName n)
    | .dot c l => .dot (norm c) l
    | .idx c e => .idx (norm c) (norm e)
    | .call f ps => .call (norm f) (normArgs ps)
    | .lam args b => .lam args (norm b)
    | .bin o l r => .bin o (norm l) (norm r)
    | .neg e => .neg (norm e)
    | .paren e => .paren (norm e)
    | e => e
  def normArgs : Args → Args
    | .nil => .nil
    | .cons e rest => .cons (norm e) (normArgs rest)
end

theorem level_norm (e : Expr) : level (norm e) = level e := by cases e <;> simp [norm, level]
theorem isAtom_norm (e : Expr) : isAtom (norm e) = isAtom e := by cases e <;> simp [norm, isAtom]

mutual
  theorem edge_norm : ∀ e : Expr, edge (norm e) = edge e
    | .ref _ => rfl
    | .dot _ _ => rfl
    | .idx _ _ => rfl
    | .call _ _ => rfl
    | .lam _ _ => rfl
    | .bin o l r => by simp only [norm, edge]; rw [edge_norm r]
    | .neg e => by simp only [norm, edge]; rw [edge_norm e]
    | .paren _ => rfl
    | .text _ => rfl
    | .num _ => rfl
    | .bool _ => rfl
    | .null => rfl
end

theorem atom_level {e : Expr} (h : isAtom e = true) : level e = 14 ∧ edge e = 14 := by
  cases e <;> simp [isAtom] at h <;> simp [level, edge]

/-- the operator that follows may follow -/
def Follow (e : Expr) (rest : List Tok) : Prop := ∀ q tl, rest = .op q :: tl → q.prec ≤ edge e
/-- … and is below the level the expression was parsed at -/
def FollowP (p : Nat) (e : Expr) (rest : List Tok) : Prop := ∀ q tl, rest = .op q :: tl → q.prec < p ∧ q.prec ≤ edge e

theorem lamHead_names_ne_nil (args : List (List Char)) (rest : List Tok) :
    ∀ (acc : List (List Char)) (ts : List Tok), acc ≠ [] → lamHead.names acc ts = some (args, rest) → args ≠ [] := by
  intro acc ts
  fun_induction lamHead.names acc ts with
  | case1 acc b r ih => intro _ h; exact ih (by simp) h
  | case2 acc r => intro hacc h; cases h; exact hacc
  | case3 acc ts h1 h2 => intro _ h; cases h

theorem lamHead_args_ne_nil {ts : List Tok} {args : List (List Char)} {rest : List Tok}
    (h : lamHead ts = some (args, rest)) : args ≠ [] := by
  unfold lamHead at h
  split at h
  · exact lamHead_names_ne_nil args rest _ _ (by simp) h
  · cases h


/-- any value read from a literal token is denoted by its own quoted form -/
theorem literal_requote (hpr : Tables.isPrint '\n' = false) (v : List Char) :
    Quote.literalValue (Quote.quote Tables.isPrint v) = some v := by
  simp [Quote.literalValue, Quote.unquote_quote Tables.isPrint hpr v]

def ShapeE (e : Expr) : Prop := Shape (.e (norm e))

theorem shapeE_atom {e : Expr} (h : isAtom e = true) : 13 ≤ level e ∧ ∀ rest, Follow e rest := by
  obtain ⟨h1, h2⟩ := atom_level h
  refine ⟨by omega, fun rest q tl _ => ?_⟩
  have := prec_le_12 q; omega

/-- **The parser only returns well-shaped trees.** -/
theorem parser_shape (hpr : Tables.isPrint '\n' = false) (f : Nat) :
    (∀ p ts e rest, parseExpr f p ts = some (e, rest) → p ≤ 13 → ShapeE e ∧ p ≤ level e ∧ FollowP p e rest) ∧
    (∀ p l ts e rest, parseOps f p l ts = some (e, rest) → p ≤ 13 → ShapeE l → p ≤ level l → Follow l ts →
      ShapeE e ∧ p ≤ level e ∧ FollowP p e rest) ∧
    (∀ ts e rest, parsePrimary f ts = some (e, rest) → ShapeE e ∧ 13 ≤ level e ∧ Follow e rest) ∧
    (∀ ts e rest, parseAtom f ts = some (e, rest) → ShapeE e ∧ isAtom e = true) ∧
    (∀ a ts e rest, parseSuffix f a ts = some (e, rest) → ShapeE a → isAtom a = true → ShapeE e ∧ isAtom e = true) ∧
    (∀ ts ps rest, parseArgs f ts = some (ps, rest) → Shape (.a (normArgs ps))) := by
  induction f with
  | zero =>
    refine ⟨?_, ?_, ?_, ?_, ?_, ?_⟩ <;> intros <;> simp_all [parseExpr, parseOps, parsePrimary, parseAtom, parseSuffix, parseArgs]
  | succ f ih =>
    obtain ⟨ihE, ihO, ihP, ihA, ihS, ihG⟩ := ih
    refine ⟨?_, ?_, ?_, ?_, ?_, ?_⟩
    · -- parseExpr
      intro p ts e rest h hp
      simp only [parseExpr] at h
      split at h
      · cases h
      · rename_i l r1 hl
        obtain ⟨h1, h2, h3⟩ := ihP ts l r1 hl
        exact ihO p l r1 e rest h hp h1 (by omega) h3
    · -- parseOps
      intro p l ts e rest h hp hl hlv hfo
      simp only [parseOps] at h
      split at h
      · rename_i o rest0
        split at h
        · rename_i hpo
          split at h
          · cases h
          · rename_i r rest1 hr
            have ho12 := prec_le_12 o
            obtain ⟨r1, r2, r3⟩ := ihE (o.prec + 1) rest0 r rest1 hr (by omega)
            have hb : ShapeE (.bin o l r) := by
              simp only [ShapeE, norm]
              refine .bin hl r1 ?_ ?_
              · rw [edge_norm]; exact hfo o rest0 rfl
              · rw [level_norm]; exact r2
            have hf2 : Follow (.bin o l r) rest1 := by
              intro q tl hq
              have := r3 q tl hq
              simp only [edge]; omega
            exact ihO p (.bin o l r) rest1 e rest h hp hb (by simp only [level]; exact hpo) hf2
        · cases h
          refine ⟨hl, hlv, fun q tl hq => ?_⟩
          cases hq
          exact ⟨by omega, hfo _ _ rfl⟩
      · cases h
        refine ⟨hl, hlv, fun q tl hq => ?_⟩
        subst hq
        rename_i hno
        exact absurd rfl (hno q tl)
    · -- parsePrimary
      intro ts e rest h
      simp only [parsePrimary] at h
      split at h
      · -- negation
        rename_i rest0
        split at h
        · cases h
        · rename_i e1 rest1 he1
          cases h
          obtain ⟨r1, r2, r3⟩ := ihE 13 rest0 e1 rest he1 (Nat.le_refl _)
          refine ⟨?_, by simp [level], fun q tl hq => ?_⟩
          · simp only [ShapeE, norm]; exact .neg r1 (by rw [level_norm]; exact r2)
          · have := r3 q tl hq; simp only [edge]; omega
      · -- text
        rename_i raw rest0
        split at h
        · rename_i v hv
          cases h
          refine ⟨?_, by simp [level], fun q tl _ => by have := prec_le_12 q; simp only [edge]; omega⟩
          simp only [ShapeE, norm]; exact .text (literal_requote hpr v)
        · cases h
      · cases h
        refine ⟨?_, by simp [level], fun q tl _ => by have := prec_le_12 q; simp only [edge]; omega⟩
        simp only [ShapeE, norm]; exact .num (numValue_idem _)
      · cases h
        refine ⟨?_, by simp [level], fun q tl _ => by have := prec_le_12 q; simp only [edge]; omega⟩
        simp only [ShapeE, norm]; exact .num (numValue_idem _)
      · cases h
        exact ⟨by simp only [ShapeE, norm]; exact .tru, by simp [level], fun q tl _ => by have := prec_le_12 q; simp only [edge]; omega⟩
      · cases h
        exact ⟨by simp only [ShapeE, norm]; exact .fls, by simp [level], fun q tl _ => by have := prec_le_12 q; simp only [edge]; omega⟩
      · cases h
        exact ⟨by simp only [ShapeE, norm]; exact .null, by simp [level], fun q tl _ => by have := prec_le_12 q; simp only [edge]; omega⟩
      · -- anonymous function or atom
        split at h
        · rename_i args rest0 hlam
          split at h
          · cases h
          · rename_i b rest1 hb
            cases h
            obtain ⟨r1, _, r3⟩ := ihE 6 rest0 b rest hb (by omega)
            refine ⟨?_, by simp [level], fun q tl hq => ?_⟩
            · simp only [ShapeE, norm]; exact .lam (lamHead_args_ne_nil hlam) r1
            · have := (r3 q tl hq).1; have := prec_ge_7 q; omega
        · obtain ⟨r1, r2⟩ := ihA ts e rest h
          obtain ⟨r3, r4⟩ := shapeE_atom r2
          exact ⟨r1, r3, r4 rest⟩
    · -- parseAtom
      intro ts e rest h
      simp only [parseAtom] at h
      split at h
      · rename_i n rest0
        exact ihS (.ref n) rest0 e rest h (by simp only [ShapeE, norm]; exact .ref (lowerName_idem n)) rfl
      · rename_i rest0
        split at h
        · rename_i e1 rest1 he1
          obtain ⟨r1, _, _⟩ := ihE 0 rest0 e1 (.rparen :: rest1) he1 (by omega)
          exact ihS (.paren e1) rest1 e rest h (by simp only [ShapeE, norm]; exact .paren r1) rfl
        · cases h
      · cases h
    · -- parseSuffix
      intro a ts e rest h ha hat
      simp only [parseSuffix] at h
      split at h
      · rename_i n rest0
        exact ihS (.dot a n) rest0 e rest h (by simp only [ShapeE, norm]; exact .dot ha (by rw [isAtom_norm]; exact hat)) rfl
      · rename_i n rest0
        exact ihS (.dot a n) rest0 e rest h (by simp only [ShapeE, norm]; exact .dot ha (by rw [isAtom_norm]; exact hat)) rfl
      · rename_i rest0
        split at h
        · rename_i i rest1 hi
          obtain ⟨r1, _, _⟩ := ihE 0 rest0 i (.rbrack :: rest1) hi (by omega)
          exact ihS (.idx a i) rest1 e rest h (by simp only [ShapeE, norm]; exact .idx ha (by rw [isAtom_norm]; exact hat) r1) rfl
        · cases h
      · rename_i rest0
        exact ihS (.call a .nil) rest0 e rest h
          (by simp only [ShapeE, norm, normArgs]; exact .call ha (by rw [isAtom_norm]; exact hat) .argsNil) rfl
      · rename_i rest0 _
        split at h
        · rename_i ps rest1 hps
          have r1 := ihG rest0 ps (.rparen :: rest1) hps
          exact ihS (.call a ps) rest1 e rest h (by simp only [ShapeE, norm]; exact .call ha (by rw [isAtom_norm]; exact hat) r1) rfl
        · cases h
      · cases h; exact ⟨ha, hat⟩
    · -- parseArgs
      intro ts ps rest h
      simp only [parseArgs] at h
      split at h
      · cases h
      · rename_i e1 rest0 he1
        obtain ⟨r1, _, _⟩ := ihE 0 ts e1 (.comma :: rest0) he1 (by omega)
        split at h
        · cases h
        · rename_i more rest1 hm
          cases h
          simp only [normArgs]
          exact .argsCons r1 (ihG rest0 more rest hm)
      · rename_i e1 rest0 _ he1
        cases h
        obtain ⟨r1, _, _⟩ := ihE 0 ts e1 rest he1 (by omega)
        simp only [normArgs]
        exact .argsCons r1 .argsNil


/-! ### lowering the names changes neither the printed form nor the value -/

mutual
  theorem toks_norm : ∀ e : Expr, toks (norm e) = toks e
    | .ref n => by simp only [norm, toks, lowerName_idem]
    | .dot c l => by simp only [norm, toks]; rw [toks_norm c]
    | .idx c e => by simp only [norm, toks]; rw [toks_norm c, toks_norm e]
    | .call f ps => by simp only [norm, toks]; rw [toks_norm f, argToks_norm ps]
    | .lam args b => by simp only [norm, toks]; rw [toks_norm b]
    | .bin o l r => by simp only [norm, toks]; rw [toks_norm l, toks_norm r]
    | .neg e => by simp only [norm, toks]; rw [toks_norm e]
    | .paren e => by simp only [norm, toks]; rw [toks_norm e]
    | .text _ => rfl
    | .num _ => rfl
    | .bool _ => rfl
    | .null => rfl
  theorem argToks_norm : ∀ ps : Args, argToks (normArgs ps) = argToks ps
    | .nil => rfl
    | .cons e .nil => by simp only [normArgs, argToks]; rw [toks_norm e]
    | .cons e (.cons e2 more) => by
      have h := argToks_norm (.cons e2 more)
      simp only [normArgs] at h ⊢
      simp only [argToks] at h ⊢
      rw [toks_norm e, h]
end

mutual
  theorem eval_norm {V : Type} (S : Sem V) : ∀ (ρ : Env V) (e : Expr), eval S ρ (norm e) = eval S ρ e
    | ρ, .ref n => by simp only [norm, eval, lowerName_idem]
    | ρ, .dot c l => by simp only [norm, eval]; rw [eval_norm S ρ c]
    | ρ, .idx c e => by simp only [norm, eval]; rw [eval_norm S ρ c, eval_norm S ρ e]
    | ρ, .call f ps => by simp only [norm, eval]; rw [eval_norm S ρ f, evalArgs_norm S ρ ps]
    | ρ, .lam args b => by
      simp only [norm, eval]
      congr 1
      funext vs
      exact eval_norm S _ b
    | ρ, .bin o l r => by simp only [norm, eval]; rw [eval_norm S ρ l, eval_norm S ρ r]
    | ρ, .neg e => by simp only [norm, eval]; rw [eval_norm S ρ e]
    | ρ, .paren e => by simp only [norm, eval]; rw [eval_norm S ρ e]
    | _, .text _ => rfl
    | _, .num _ => rfl
    | _, .bool _ => rfl
    | _, .null => rfl
  theorem evalArgs_norm {V : Type} (S : Sem V) : ∀ (ρ : Env V) (ps : Args), evalArgs S ρ (normArgs ps) = evalArgs S ρ ps
    | _, .nil => rfl
    | ρ, .cons e rest => by simp only [normArgs, evalArgs]; rw [eval_norm S ρ e, evalArgs_norm S ρ rest]
end

end GoflowModel.Expr.Full
