import GoflowModel.ContactQL.Ast
import GoflowModel.ContactQL.Lexer
import GoflowModel.Lemmas.LexText
/-! Lemmas for the ContactQL model (C14, C15). -/
namespace GoflowModel.ContactQL
open GoflowModel.Quote GoflowModel.LexText

/-- the body (between the quotes) of `quoteValue` -/
def valueBody (pr : Char → Bool) (v : List Char) : List Char :=
  if v.getLast? = some '\\' then escBody pr v.dropLast ++ ['\\', 'u', '0', '0', '5', 'c']
  else escBody pr v

theorem quoteValue_eq (pr : Char → Bool) (v : List Char) :
    quoteValue pr v = '"' :: (valueBody pr v ++ ['"']) := by
  unfold quoteValue valueBody
  split <;> simp [quote]

theorem valueBody_QEsc (pr : Char → Bool) (v : List Char) : QEsc false (valueBody pr v) = true := by
  unfold valueBody
  split
  · rw [QEsc_append, QEsc_escBody]
    simp [QEsc]
  · exact QEsc_escBody pr false v

theorem valueBody_endsBS (pr : Char → Bool) (v : List Char) : endsBS false (valueBody pr v) = false := by
  unfold valueBody
  split
  · rw [endsBS_append]; simp [endsBS]
  · rename_i h
    rw [endsBS_escBody]
    cases hl : v.getLast? with
    | none => rfl
    | some c =>
      have : c ≠ '\\' := by intro e; subst e; exact h hl
      simp [this]

theorem valueBody_unq (pr : Char → Bool) (hpr : pr '\n' = false) (v : List Char) :
    unqGo (valueBody pr v ++ ['"']) = .ok v := by
  unfold valueBody
  split
  · rename_i h
    rw [List.append_assoc, unqGo_escBody pr hpr]
    have : unqGo (['\\', 'u', '0', '0', '5', 'c'] ++ ['"']) = .ok ['\\'] := by
      simp only [List.cons_append, List.nil_append, unqGo]
      simp [parseHex, unhex, validRune, UnqResult.cons]
    rw [this]
    have hv : v = v.dropLast ++ ['\\'] := by
      have hne : v ≠ [] := by intro e; subst e; simp at h
      have h1 := List.dropLast_concat_getLast hne
      have h2 : v.getLast hne = '\\' := by
        have := List.getLast?_eq_some_getLast hne
        rw [h] at this; exact (Option.some.inj this).symm
      rw [h2] at h1; exact h1.symm
    have key : ∀ l : List Char, l.foldr UnqResult.cons (.ok ['\\']) = .ok (l ++ ['\\']) := by
      intro l; induction l with
      | nil => rfl
      | cons c l ih => simp [List.foldr_cons, ih, UnqResult.cons]
    rw [key, ← hv]
  · rw [unqGo_escBody pr hpr, unqGo_close, foldr_cons_ok]

theorem evalAll_append (q : Cond → Bool) (a b : List Node) :
    evalAll q (a ++ b) = (evalAll q a && evalAll q b) := by
  induction a with
  | nil => simp [evalAll]
  | cons x a ih => simp [evalAll, ih, Bool.and_assoc]

theorem evalAny_append (q : Cond → Bool) (a b : List Node) :
    evalAny q (a ++ b) = (evalAny q a || evalAny q b) := by
  induction a with
  | nil => simp [evalAny]
  | cons x a ih => simp [evalAny, ih, Bool.or_assoc]

theorem evalAll_promote (q : Cond → Bool) (l : List Node) :
    evalAll q (promote true l) = evalAll q l := by
  induction l with
  | nil => simp [promote]
  | cons x l ih =>
    cases x with
    | cond c => simp [promote, evalAll, ih]
    | comb a gs =>
      cases a <;> simp [promote, evalAll_append, evalAll, eval, ih]

theorem evalAny_promote (q : Cond → Bool) (l : List Node) :
    evalAny q (promote false l) = evalAny q l := by
  induction l with
  | nil => simp [promote]
  | cons x l ih =>
    cases x with
    | cond c => simp [promote, evalAny, ih]
    | comb a gs =>
      cases a <;> simp [promote, evalAny_append, evalAny, eval, ih]

mutual
/-- shape of everything `simplify` returns: conditions, and combinations of at least two
well-shaped children -/
def wellShaped : Node → Bool
  | .cond _ => true
  | .comb _ cs => decide (2 ≤ cs.length) && wellShapedList cs
def wellShapedList : List Node → Bool
  | [] => true
  | n :: ns => wellShaped n && wellShapedList ns
end

theorem wellShapedList_append (a b : List Node) :
    wellShapedList (a ++ b) = (wellShapedList a && wellShapedList b) := by
  induction a with
  | nil => simp [wellShapedList]
  | cons x a ih => simp [wellShapedList, ih, Bool.and_assoc]

theorem promote_ws (a : Bool) (l : List Node) (h : wellShapedList l = true) :
    wellShapedList (promote a l) = true := by
  induction l with
  | nil => simp [promote, wellShapedList]
  | cons x l ih =>
    simp only [wellShapedList, Bool.and_eq_true] at h
    cases x with
    | cond c => simp [promote, wellShapedList, wellShaped, ih h.2]
    | comb b gs =>
      simp only [promote]
      rw [wellShapedList_append, ih h.2]
      split
      · have := h.1; simp only [wellShaped, Bool.and_eq_true] at this; simp [this.2]
      · simp [wellShapedList, h.1]

theorem promote_ne_nil (a : Bool) (l : List Node) (hne : l ≠ []) (hs : wellShapedList l = true) :
    promote a l ≠ [] := by
  cases l with
  | nil => exact absurd rfl hne
  | cons x l =>
    cases x with
    | cond c => simp [promote]
    | comb b gs =>
      simp only [wellShapedList, wellShaped, Bool.and_eq_true, decide_eq_true_eq] at hs
      have h2 : 2 ≤ gs.length := hs.1.1
      simp only [promote]
      split
      · intro h
        have := congrArg List.length h
        simp only [List.length_append, List.length_nil] at this; omega
      · simp

end GoflowModel.ContactQL
