import GoflowModel.Basic.DateText
/-! Lemmas about the date/time text model: how the patterns run on formatted text. -/
namespace GoflowModel.DateText

theorem digit_ne {c : Char} (h : isDigit c = true) (x : Char) (hx : isDigit x = false) : c ≠ x := by
  rintro rfl; rw [h] at hx; cases hx

theorem isWord_of_digit {c : Char} (h : isDigit c = true) : isWord c = true := by simp [isWord, h]

theorem isSep_of_digit {c : Char} (h : isDigit c = true) : isSep c = false := by
  have h1 := digit_ne h '-' (by decide)
  have h2 := digit_ne h '.' (by decide)
  have h3 := digit_ne h '\\' (by decide)
  have h4 := digit_ne h '/' (by decide)
  have h5 := digit_ne h '_' (by decide)
  have h6 := digit_ne h ' ' (by decide)
  simp [isSep, h1, h2, h3, h4, h5, h6]

@[simp] theorem isSep_dash : isSep '-' = true := by decide
@[simp] theorem isDigit_dash : isDigit '-' = false := by decide
@[simp] theorem isDigit_space : isDigit ' ' = false := by decide
@[simp] theorem isDigit_colon : isDigit ':' = false := by decide
@[simp] theorem isWord_space : isWord ' ' = false := by decide
@[simp] theorem isWord_colon : isWord ':' = false := by decide
@[simp] theorem isSep_space : isSep ' ' = true := by decide

/-- the day-month-year pattern on `dd-dd-dddd` followed by anything that is not a word character -/
theorem run_dmy' (a b c e f g h i : Char) (rest : List Char) (hrest : wordOpt rest.head? = false)
    (ha : isDigit a = true) (hb : isDigit b = true) (hc : isDigit c = true) (he : isDigit e = true)
    (hf : isDigit f = true) (hg : isDigit g = true) (hh : isDigit h = true) (hi : isDigit i = true) :
    patternDayMonthYear.run ⟨none, a :: b :: '-' :: c :: e :: '-' :: f :: g :: h :: i :: rest, []⟩ some =
      some ⟨some i, rest, [(3, [f, g, h, i]), (2, [c, e]), (1, [a, b])]⟩ := by
  have wa := isWord_of_digit ha
  have wi := isWord_of_digit hi
  have wn : wordOpt none = false := rfl
  have ws : ∀ c, wordOpt (some c) = isWord c := fun _ => rfl
  have ar : ∀ n : Nat, n + 1 + 1 + 1 + 1 - n = 4 := by omega
  simp [patternDayMonthYear, d12, d, sep, d4or2, d2, Re.run, atBoundary, wn, ws, ha, hb, hc, he, hf, hg, hh, hi, wa, wi, hrest, ar]

theorem run_dmy (a b c e f g h i : Char) (rest : List Char)
    (ha : isDigit a = true) (hb : isDigit b = true) (hc : isDigit c = true) (he : isDigit e = true)
    (hf : isDigit f = true) (hg : isDigit g = true) (hh : isDigit h = true) (hi : isDigit i = true) :
    patternDayMonthYear.run ⟨none, a :: b :: '-' :: c :: e :: '-' :: f :: g :: h :: i :: ' ' :: rest, []⟩ some =
      some ⟨some i, ' ' :: rest, [(3, [f, g, h, i]), (2, [c, e]), (1, [a, b])]⟩ :=
  run_dmy' a b c e f g h i (' ' :: rest) (by simp [wordOpt]) ha hb hc he hf hg hh hi

@[simp] theorem isDigit_a : isDigit 'a' = false := by decide
@[simp] theorem isDigit_p : isDigit 'p' = false := by decide
@[simp] theorem isDigit_m : isDigit 'm' = false := by decide
@[simp] theorem isWord_a : isWord 'a' = true := by decide
@[simp] theorem isWord_p : isWord 'p' = true := by decide
@[simp] theorem isWord_m : isWord 'm' = true := by decide

theorem digit_ne_colon {c : Char} (h : isDigit c = true) : (c == ':') = false := by
  have := digit_ne h ':' (by decide); simpa using this
theorem digit_ne_dot {c : Char} (h : isDigit c = true) : (c == '.') = false := by
  have := digit_ne h '.' (by decide); simpa using this

/-- the time pattern on `tt:mm` -/
theorem find_hm (f : Nat) (a b c e : Char)
    (ha : isDigit a = true) (hb : isDigit b = true) (hc : isDigit c = true) (he : isDigit e = true) :
    findAll patternTime (f + 3) none [' ', a, b, ':', c, e] = [([(2, [c, e]), (1, [a, b])], [])] := by
  have wa := isWord_of_digit ha
  have we := isWord_of_digit he
  simp [findAll, patternTime, d12, d, d2, ch, Re.run, starK, atBoundary, wordOpt, ha, hb, hc, he, wa, we]


/-- `tt:mm:ss` -/
theorem find_hms (f : Nat) (a b c e g h : Char)
    (ha : isDigit a = true) (hb : isDigit b = true) (hc : isDigit c = true) (he : isDigit e = true)
    (hg : isDigit g = true) (hh : isDigit h = true) :
    findAll patternTime (f + 3) none [' ', a, b, ':', c, e, ':', g, h] =
      [([(3, [g, h]), (2, [c, e]), (1, [a, b])], [])] := by
  have wa := isWord_of_digit ha
  have wh := isWord_of_digit hh
  simp [findAll, patternTime, d12, d, d2, ch, Re.run, starK, atBoundary, wordOpt, ha, hb, hc, he, hg, hh, wa, wh]

/-- `h:mm aa`, two-digit hour -/
theorem find_hma2 (f : Nat) (a b c e x : Char) (hx : x = 'a' ∨ x = 'p')
    (ha : isDigit a = true) (hb : isDigit b = true) (hc : isDigit c = true) (he : isDigit e = true) :
    findAll patternTime (f + 3) none [' ', a, b, ':', c, e, ' ', x, 'm'] =
      [([(5, [x, 'm']), (2, [c, e]), (1, [a, b])], [])] := by
  have wa := isWord_of_digit ha
  have we := isWord_of_digit he
  rcases hx with rfl | rfl <;>
  simp [findAll, patternTime, d12, d, d2, ch, Re.run, starK, atBoundary, wordOpt, ha, hb, hc, he, wa, we]

/-- `h:mm aa`, one-digit hour -/
theorem find_hma1 (f : Nat) (a c e x : Char) (hx : x = 'a' ∨ x = 'p')
    (ha : isDigit a = true) (hc : isDigit c = true) (he : isDigit e = true) :
    findAll patternTime (f + 3) none [' ', a, ':', c, e, ' ', x, 'm'] =
      [([(5, [x, 'm']), (2, [c, e]), (1, [a])], [])] := by
  have wa := isWord_of_digit ha
  have we := isWord_of_digit he
  rcases hx with rfl | rfl <;>
  simp [findAll, patternTime, d12, d, d2, ch, Re.run, starK, atBoundary, wordOpt, ha, hc, he, wa, we]

/-- `h:mm:ss aa`, two-digit hour -/
theorem find_hmsa2 (f : Nat) (a b c e g h x : Char) (hx : x = 'a' ∨ x = 'p')
    (ha : isDigit a = true) (hb : isDigit b = true) (hc : isDigit c = true) (he : isDigit e = true)
    (hg : isDigit g = true) (hh : isDigit h = true) :
    findAll patternTime (f + 3) none [' ', a, b, ':', c, e, ':', g, h, ' ', x, 'm'] =
      [([(5, [x, 'm']), (3, [g, h]), (2, [c, e]), (1, [a, b])], [])] := by
  have wa := isWord_of_digit ha
  have wh := isWord_of_digit hh
  rcases hx with rfl | rfl <;>
  simp [findAll, patternTime, d12, d, d2, ch, Re.run, starK, atBoundary, wordOpt, ha, hb, hc, he, hg, hh, wa, wh]

/-- `h:mm:ss aa`, one-digit hour -/
theorem find_hmsa1 (f : Nat) (a c e g h x : Char) (hx : x = 'a' ∨ x = 'p')
    (ha : isDigit a = true) (hc : isDigit c = true) (he : isDigit e = true)
    (hg : isDigit g = true) (hh : isDigit h = true) :
    findAll patternTime (f + 3) none [' ', a, ':', c, e, ':', g, h, ' ', x, 'm'] =
      [([(5, [x, 'm']), (3, [g, h]), (2, [c, e]), (1, [a])], [])] := by
  have wa := isWord_of_digit ha
  have wh := isWord_of_digit hh
  rcases hx with rfl | rfl <;>
  simp [findAll, patternTime, d12, d, d2, ch, Re.run, starK, atBoundary, wordOpt, ha, hc, he, hg, hh, wa, wh]

/-- `XTime.Render`: `tt:mm:ss.ffffff` -/
theorem find_time_micro (f : Nat) (a b c e g h u1 u2 u3 u4 u5 u6 : Char)
    (ha : isDigit a = true) (hb : isDigit b = true) (hc : isDigit c = true) (he : isDigit e = true)
    (hg : isDigit g = true) (hh : isDigit h = true)
    (h1 : isDigit u1 = true) (h2 : isDigit u2 = true) (h3 : isDigit u3 = true) (h4 : isDigit u4 = true)
    (h5 : isDigit u5 = true) (h6 : isDigit u6 = true) :
    findAll patternTime (f + 2) none [a, b, ':', c, e, ':', g, h, '.', u1, u2, u3, u4, u5, u6] =
      [([(4, [u1, u2, u3, u4, u5, u6]), (3, [g, h]), (2, [c, e]), (1, [a, b])], [])] := by
  have wa := isWord_of_digit ha
  have w6 := isWord_of_digit h6
  simp [findAll, patternTime, d12, d, d2, ch, Re.run, starK, atBoundary, wordOpt, ha, hb, hc, he, hg, hh, h1, h2, h3, h4, h5, h6, wa, w6]

/-! ### digits -/

theorem isDigit_dg (n : Nat) : isDigit (dg n) = true := by
  have h : n % 10 < 10 := Nat.mod_lt _ (by decide)
  unfold dg
  generalize n % 10 = k at h
  have : k = 0 ∨ k = 1 ∨ k = 2 ∨ k = 3 ∨ k = 4 ∨ k = 5 ∨ k = 6 ∨ k = 7 ∨ k = 8 ∨ k = 9 := by omega
  rcases this with rfl | rfl | rfl | rfl | rfl | rfl | rfl | rfl | rfl | rfl <;> decide

theorem digitVal_dg (n : Nat) : digitVal (dg n) = n % 10 := by
  have h : n % 10 < 10 := Nat.mod_lt _ (by decide)
  unfold dg
  generalize n % 10 = k at h
  have : k = 0 ∨ k = 1 ∨ k = 2 ∨ k = 3 ∨ k = 4 ∨ k = 5 ∨ k = 6 ∨ k = 7 ∨ k = 8 ∨ k = 9 := by omega
  rcases this with rfl | rfl | rfl | rfl | rfl | rfl | rfl | rfl | rfl | rfl <;> decide

theorem dg_ascii (n : Nat) : (dg n).toNat < 128 := by
  have h : n % 10 < 10 := Nat.mod_lt _ (by decide)
  unfold dg
  generalize n % 10 = k at h
  have : k = 0 ∨ k = 1 ∨ k = 2 ∨ k = 3 ∨ k = 4 ∨ k = 5 ∨ k = 6 ∨ k = 7 ∨ k = 8 ∨ k = 9 := by omega
  rcases this with rfl | rfl | rfl | rfl | rfl | rfl | rfl | rfl | rfl | rfl <;> decide

theorem atoi_pad2 (n : Nat) (h : n < 100) : atoi (pad2 n) = n := by
  simp only [atoi, pad2, List.foldl_cons, List.foldl_nil, digitVal_dg]; omega

theorem atoi_pad4 (n : Nat) (h : n < 10000) : atoi (pad4 n) = n := by
  simp only [atoi, pad4, List.foldl_cons, List.foldl_nil, digitVal_dg]; omega

theorem atoi_dg1 (n : Nat) (h : n < 10) : atoi [dg n] = n := by
  simp only [atoi, List.foldl_cons, List.foldl_nil, digitVal_dg]; omega

theorem atoi_dg2 (n : Nat) (h : n < 100) : atoi [dg (n / 10), dg n] = n := atoi_pad2 n h

end GoflowModel.DateText
