import GoflowModel.Lemmas.Engine
/-! Parent links: a run's parent is an earlier run (what makes `ReadRun`'s parent lookup succeed). -/
namespace GoflowModel.Engine

def parents (s : Session) : List (Option Nat) := s.runs.map (·.parent)

/-- every run's parent has a smaller index -/
def PBC (s : Session) : Prop := ∀ (i : Nat) (p : Nat), (parents s)[i]? = some (some p) → p < i

theorem parents_modifyRun (s : Session) (r : Nat) (f : Run → Run) (h : ∀ x, (f x).parent = x.parent) :
    parents (modifyRun s r f) = parents s := by
  simp only [parents, modifyRun]
  induction s.runs generalizing r with
  | nil => simp
  | cons x l ih =>
    cases r with
    | zero => simp [List.modify_zero_cons, h]
    | succ r => simp [List.modify_succ_cons, ih]

theorem parents_exitRun (s : Session) (r : Nat) (st : RunStatus) : parents (exitRun s r st) = parents s :=
  parents_modifyRun _ _ _ (fun _ => rfl)
theorem parents_setStatus (s : Session) (r : Nat) (st : RunStatus) : parents (setStatus s r st) = parents s :=
  parents_modifyRun _ _ _ (fun _ => rfl)
theorem parents_leave (s : Session) (r : Nat) (e : Option Nat) : parents (leave s r e) = parents s :=
  parents_modifyRun _ _ _ (fun _ => rfl)
theorem parents_logEvent (st : St) (r : Nat) (step : Option StepRef) (k : EvK) :
    parents (logEvent st r step k).s = parents st.s :=
  parents_modifyRun _ _ _ (fun _ => rfl)
theorem parents_logEvents (st : St) (r : Nat) (step : Option StepRef) (ks : List EvK) :
    parents (logEvents st r step ks).s = parents st.s := by
  unfold logEvents
  induction ks generalizing st with
  | nil => rfl
  | cons k ks ih => simp only [List.foldl_cons]; rw [ih, parents_logEvent]
theorem parents_failRun (st : St) (r : Nat) (step : Option StepRef) :
    parents (failRun st r step).s = parents st.s := by
  unfold failRun; rw [parents_logEvent]; exact parents_exitRun _ _ _
theorem parents_exitAll (s : Session) : parents (exitAll s) = parents s := by
  simp only [parents, exitAll, List.map_map]; rfl
theorem parents_setSess (s : Session) (x : SessStatus) : parents { s with status := x } = parents s := rfl
theorem parents_setPushed (s : Session) (p : Option Pushed) : parents { s with pushed := p } = parents s := rfl
theorem parents_createStep (st : St) (r nodeIdx : Nat) : parents (createStep st r nodeIdx).1.s = parents st.s :=
  parents_modifyRun _ _ _ (fun _ => rfl)

theorem parents_length (s : Session) : (parents s).length = s.runs.length := by simp [parents]

def PickParents (p : List (Option Nat)) : PickResult → Prop
  | .goErr st' => parents st'.s = p
  | .ok st' _ => parents st'.s = p
  | .tapeErr _ => True

theorem pickNodeExit_parents (st : St) (r : Nat) (node : Node) (step : StepRef) (evs : List EvK) (c : RouteChoice) :
    PickParents (parents st.s) (pickNodeExit st r node step evs c) := by
  have hl := parents_logEvents st r (some step) evs
  unfold pickNodeExit
  simp only
  repeat' split
  all_goals simp only [PickParents, parents_failRun, parents_leave, hl]

def VisitParents (p : List (Option Nat)) : VisitResult → Prop
  | .goErr st' => parents st'.s = p
  | .ok st' _ _ => parents st'.s = p
  | .tapeErr _ => True

theorem visitTail_parents (st : St) (r : Nat) (node : Node) (step : StepRef) (vc : VisitChoice) :
    VisitParents (parents st.s) (visitTail st r node step vc) := by
  unfold visitTail
  have hp := pickNodeExit_parents st r node step [] vc.route
  repeat' split
  all_goals first
    | (simp only [VisitParents, parents_setPushed, parents_exitRun, parents_setSess, parents_setStatus]; done)
    | (rename_i heq; rw [heq] at hp; simp only [PickParents] at hp; simp only [VisitParents]; exact hp)
    | trivial

theorem visitNode_parents (st : St) (r nodeIdx : Nat) (node : Node) (vc : VisitChoice) :
    VisitParents (parents st.s) (visitNode st r nodeIdx node vc) := by
  unfold visitNode
  simp only
  have h1 := parents_createStep st r nodeIdx
  have h2 := parents_logEvents (createStep st r nodeIdx).1 r (some (createStep st r nodeIdx).2) vc.events
  have h3 : parents (setPushedOpt (logEvents (createStep st r nodeIdx).1 r (some (createStep st r nodeIdx).2) vc.events) vc.pushed).s = parents st.s := by
    unfold setPushedOpt
    split
    · show parents (logEvents _ _ _ _).s = _; rw [h2, h1]
    · rw [h2, h1]
  have := visitTail_parents (setPushedOpt (logEvents (createStep st r nodeIdx).1 r (some (createStep st r nodeIdx).2) vc.events) vc.pushed) r node (createStep st r nodeIdx).2 vc
  rw [h3] at this
  exact this

def FindParents (p : List (Option Nat)) : FindResult → Prop
  | .err st' => parents st'.s = p
  | .ok st' _ => parents st'.s = p
  | .tapeErr _ => True

theorem findResumeExit_parents (a : Assets) (orc : Oracle) (st : St) (r : Nat) :
    FindParents (parents st.s) (findResumeExit a orc st r) := by
  unfold findResumeExit
  split
  · simp [FindParents]
  · split
    · simp [FindParents]
    · rename_i step node _
      split
      · rename_i rr _
        have hp := pickNodeExit_parents st r node step rr.events rr.route
        split
        · rename_i heq; rw [heq] at hp; exact hp
        · rename_i heq; rw [heq] at hp; exact hp
        · trivial
      · trivial

/-! ### the loop -/

structure LP (l : Loop) : Prop where
  pbc : PBC l.st.s
  curValid : ∀ c, l.cur = some c → c < l.st.s.runs.length

def ResParents : Result → Prop
  | .ok st => PBC st.s
  | .goErr st => PBC st.s
  | _ => True

def IterParents : Sum Loop Result → Prop
  | .inl l' => LP l'
  | .inr r => ResParents r

theorem PBC_of_parents_eq {s s' : Session} (h : parents s' = parents s) (hp : PBC s) : PBC s' := by
  unfold PBC at *; rw [h]; exact hp

theorem PBC_append (s : Session) (x : Run) (p : Option Pushed) (hp : PBC s)
    (hx : ∀ q, x.parent = some q → q < s.runs.length) :
    PBC { s with runs := s.runs ++ [x], pushed := p } := by
  unfold PBC parents at *
  intro i q hq
  simp only [List.map_append, List.map_cons, List.map_nil] at hq
  rw [List.getElem?_append] at hq
  split at hq
  · exact hp i q hq
  · rename_i hlt
    simp only [List.length_map, Nat.not_lt] at hlt
    cases hi : i - s.runs.length with
    | zero =>
      simp only [List.length_map, hi, List.getElem?_cons_zero, Option.some.injEq] at hq
      have := hx q hq; omega
    | succ n => simp [hi] at hq

theorem pickDest_parents (a : Assets) (l : Loop) (h : LP l) : LP (pickDest a l).1 := by
  unfold pickDest
  split
  · rename_i p _
    simp only
    constructor
    · simp only
      split
      · apply PBC_append
        · exact PBC_of_parents_eq (parents_exitAll _) h.pbc
        · intro q hq; simp only [exitAll, List.length_map]; exact h.curValid q hq
      · exact PBC_append _ _ _ h.pbc (fun q hq => h.curValid q hq)
    · intro c hc
      simp only [Option.some.injEq] at hc
      subst hc
      simp
  · split
    · exact ⟨h.pbc, h.curValid⟩
    · exact ⟨h.pbc, h.curValid⟩

theorem noDest_parents (a : Assets) (orc : Oracle) (l : Loop) (cur : Nat) (h : LP l) (hc : l.cur = some cur) :
    IterParents (noDest a orc l cur) := by
  unfold noDest
  simp only
  generalize hs : (if ((l.st.s.runs[cur]?).map (·.exited)).getD true then l.st.s else exitRun l.st.s cur .completed) = s
  have hps : parents s = parents l.st.s := by
    subst hs; split
    · rfl
    · exact parents_exitRun _ _ _
  have hpbc : PBC s := PBC_of_parents_eq hps h.pbc
  have hlen : s.runs.length = l.st.s.runs.length := by
    have := congrArg List.length hps; simpa [parents] using this
  split
  · rename_i p hpar
    -- p is the parent of cur, hence smaller than cur
    have hplt : p < s.runs.length := by
      have hcv := h.curValid cur hc
      have : (parents s)[cur]? = some (some p) := by
        simp only [parents, List.getElem?_map]
        cases hx : s.runs[cur]? with
        | none => simp [hx] at hpar
        | some x => simp [hx] at hpar ⊢; exact hpar
      have := hpbc cur p this
      omega
    have mk : ∀ (st' : St) (e : Option (Option Nat)) (stp : Option StepRef), parents st'.s = parents s →
        LP { st := st', cur := some p, exit := e, step := stp, n := l.n } := by
      intro st' e stp hpe
      refine ⟨PBC_of_parents_eq hpe hpbc, ?_⟩
      intro c hc'
      simp only [Option.some.injEq] at hc'
      subst hc'
      have := congrArg List.length hpe
      simp only [parents, List.length_map] at this
      show p < st'.s.runs.length
      omega
    split
    · split
      · split
        · exact mk _ _ _ (parents_failRun _ _ _)
        · have hf := findResumeExit_parents a orc { l.st with s := s } p
          split
          · rename_i st' heq
            rw [heq] at hf; simp only [FindParents] at hf
            exact mk _ _ _ (by rw [parents_failRun]; exact hf)
          · rename_i st' e heq
            rw [heq] at hf; simp only [FindParents] at hf
            exact mk _ _ _ hf
          · trivial
      · exact mk _ _ _ (parents_failRun _ _ _)
    · simp only [IterParents, ResParents]; exact PBC_of_parents_eq (parents_setSess _ _) hpbc
  · simp only [IterParents, ResParents]; exact PBC_of_parents_eq (parents_setSess _ _) hpbc

theorem goDest_parents (a : Assets) (o : Opts) (orc : Oracle) (l : Loop) (cur d : Nat) (h : LP l) (hc : l.cur = some cur) :
    IterParents (goDest a o orc l cur d) := by
  unfold goDest
  simp only
  have mk : ∀ (st' : St) (e : Option (Option Nat)) (stp : Option StepRef) (n : Int), parents st'.s = parents l.st.s →
      LP { st := st', cur := l.cur, exit := e, step := stp, n := n } := by
    intro st' e stp n hpe
    refine ⟨PBC_of_parents_eq hpe h.pbc, ?_⟩
    intro c hc'
    have := h.curValid c hc'
    have hl := congrArg List.length hpe
    simp only [parents, List.length_map] at hl
    show c < st'.s.runs.length
    omega
  split
  · exact mk _ _ _ _ (parents_failRun _ _ _)
  · split
    · simp only [IterParents, ResParents]; exact h.pbc
    · rename_i node _
      split
      · rename_i vc _
        have hv := visitNode_parents l.st cur d node vc
        split
        · rename_i st' heq
          rw [heq] at hv; simp only [VisitParents] at hv
          simp only [IterParents, ResParents]; exact PBC_of_parents_eq hv h.pbc
        · trivial
        · rename_i st' step e heq
          rw [heq] at hv; simp only [VisitParents] at hv
          split
          · simp only [IterParents, ResParents]; exact PBC_of_parents_eq hv h.pbc
          · exact mk _ _ _ _ hv
      · trivial

theorem iter_parents (a : Assets) (o : Opts) (orc : Oracle) (l : Loop) (h : LP l) :
    IterParents (iter a o orc l) := by
  have hp := pickDest_parents a l h
  unfold iter
  simp only
  split
  · trivial
  · rename_i cur hc _
    exact noDest_parents a orc _ cur hp hc
  · rename_i cur d hc _
    exact goDest_parents a o orc _ cur d hp hc

theorem loop_parents (a : Assets) (o : Opts) (orc : Oracle) (fuel : Nat) (l : Loop) (h : LP l) :
    ResParents (loop a o orc fuel l) := by
  induction fuel generalizing l with
  | zero => simp [loop, ResParents]
  | succ fuel ih =>
    simp only [loop]
    have := iter_parents a o orc l h
    split
    · rename_i l' heq; rw [heq] at this; exact ih l' this
    · rename_i r heq; rw [heq] at this; exact this

theorem start_parents (a : Assets) (o : Opts) (orc : Oracle) : ResParents (start a o orc) := by
  unfold start
  simp only
  split
  · simp [ResParents, PBC, parents, logSprintOnly, emptySession]
  · apply loop_parents
    refine ⟨?_, by simp⟩
    simp [PBC, parents, logSprintOnly, emptySession]

theorem parents_failSession (st : St) (w : Nat) : parents (failSession st w).s = parents st.s := by
  have key : ∀ l : List Run, ((l.map fun x : Run =>
      if x.status = .active ∨ x.status = .waiting then { x with status := .failed, exited := true } else x).map
        (·.parent)) = l.map (·.parent) := by
    intro l
    rw [List.map_map]
    apply List.map_congr_left
    intro x _
    simp only [Function.comp]
    split <;> rfl
  have := parents_failRun st w none
  simp only [parents] at this ⊢
  simp only [failSession]
  rw [key]; exact this

theorem parents_baseApply (orc : Oracle) (st : St) (r : Nat) (step : StepRef) :
    parents (baseApply orc st r step).s = parents st.s := by
  unfold baseApply
  simp only
  split
  · rw [parents_setStatus, parents_logEvents]
  · rw [parents_logEvents]

theorem parents_applyResume (orc : Oracle) (st : St) (r : Nat) (step : StepRef) (k : ResumeKind) :
    parents (applyResume orc st r step k).s = parents st.s := by
  unfold applyResume
  simp only
  rw [parents_logEvents]
  cases k <;> simp only [parents_logEvent, parents_baseApply, parents_exitRun]

theorem waitingRun_lt (s : Session) (w : Nat) (h : waitingRun s = some w) : w < s.runs.length := by
  unfold waitingRun at h
  exact (List.findIdx?_eq_some_iff_getElem.1 h).1

theorem resume_parents (a : Assets) (o : Opts) (orc : Oracle) (s : Session) (k : ResumeKind) (h : PBC s) :
    ResParents (resume a o orc s k) := by
  unfold resume
  simp only
  have hfs : ∀ w, ResParents (.ok (failSession ⟨s, []⟩ w)) := by
    intro w; simp only [ResParents]; exact PBC_of_parents_eq (parents_failSession _ _) h
  split
  · trivial
  · split
    · trivial
    · rename_i w hw
      split
      · exact hfs w
      · split
        · exact hfs w
        · split
          · exact hfs w
          · rename_i step node _
            split
            · exact hfs w
            · split
              · trivial
              · have ha := parents_applyResume orc ⟨{ s with status := .active }, []⟩ w step k
                have hf := findResumeExit_parents a orc (applyResume orc ⟨{ s with status := .active }, []⟩ w step k) w
                have hs : parents ({ s with status := SessStatus.active } : Session) = parents s := rfl
                split
                · rename_i st' heq
                  rw [heq] at hf; simp only [FindParents] at hf
                  simp only [ResParents]
                  exact PBC_of_parents_eq (by rw [parents_failSession, hf, ha]; exact hs) h
                · trivial
                · rename_i st' e heq
                  rw [heq] at hf; simp only [FindParents] at hf
                  have e1 : parents st'.s = parents s := by rw [hf, ha]; exact hs
                  apply loop_parents
                  refine ⟨PBC_of_parents_eq e1 h, ?_⟩
                  intro c hc
                  simp only [Option.some.injEq] at hc
                  subst hc
                  have := congrArg List.length e1
                  simp only [parents, List.length_map] at this
                  have := waitingRun_lt s w hw
                  show w < st'.s.runs.length
                  omega

end GoflowModel.Engine
