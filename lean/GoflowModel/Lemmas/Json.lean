import GoflowModel.Basic.Json
import GoflowModel.Lemmas.NumValue
/-! The round trip of a JSON document through `parse_json` and `json()` keeps what it denotes. -/
namespace GoflowModel.Json
open GoflowModel.Dec GoflowModel.Props.C13 GoflowModel.Expr

theorem match_id (o : Option X) : (match o with | some x => some x | none => none) = o := by cases o <;> rfl

theorem semO_eraseAll (k : List Char) : ∀ (m : JO) (q : List Char),
    semO (eraseAll k m) q = if q = k then none else semO m q
  | .nil, q => by simp [eraseAll, semO]
  | .cons k' v rest, q => by
    have ih := semO_eraseAll k rest q
    simp only [eraseAll]
    by_cases hk : k' = k
    · simp only [hk, if_true, semO]
      rw [ih]
      by_cases hq : q = k
      · simp [hq]
      · have : ¬ k = q := fun e => hq e.symm
        simp only [hq, this, if_false]
        cases semO rest q <;> rfl
    · simp only [hk, if_false, semO]
      rw [ih]
      by_cases hq : q = k
      · subst hq
        simp [hk]
      · simp [hq]

theorem semO_ins (k : List Char) (v : J) : ∀ (m : JO) (q : List Char),
    semO (ins k v m) q = if q = k then some (sem v) else semO m q
  | .nil, q => by
    simp only [ins, semO]
    by_cases hq : q = k
    · simp [hq]
    · have : ¬ k = q := fun e => hq e.symm
      simp [hq, this]
  | .cons k' v' rest, q => by
    have ih := semO_ins k v rest q
    simp only [ins]
    by_cases hk : k' = k
    · simp only [hk, if_true]
      rw [ih]
      by_cases hq : q = k
      · simp [hq]
      · have : ¬ k = q := fun e => hq e.symm
        simp only [hq, semO, this, if_false]
        cases semO rest q <;> rfl
    · simp only [hk, if_false]
      by_cases hlt : k < k'
      · simp only [hlt, if_true, semO]
        rw [semO_eraseAll]
        by_cases hq : q = k
        · subst hq
          simp [hk]
        · have : ¬ k = q := fun e => hq e.symm
          simp only [hq, this, if_false]
          cases semO rest q with
          | some x => rfl
          | none => simp only []; by_cases hkq : k' = q <;> simp [hkq]
      · simp only [hlt, if_false, semO]
        rw [ih]
        by_cases hq : q = k
        · subst hq
          simp
        · simp [hq]

theorem canonDec_eq (d : Dec) : canonDec d = canon d := rfl

/-- a number written by `json()` and read again has the same value -/
theorem norm_reparse (d : Dec) (h : NumOK d) : Dec.norm (reparse d) = Dec.norm d := by
  unfold reparse
  rw [canonDec_eq]
  by_cases hz : trimLeadingZeros d.digits = []
  · have hc : canon d = ⟨d.neg, ['0'], d.exp⟩ := by simp [canon, hz]
    rw [hc, render_zero]
    have : Dec.parse ['0'] = some ⟨false, ['0'], 0⟩ := by decide
    rw [this]
    simp only [Option.getD_some]
    have h0 : trimLeadingZeros ['0'] = [] := by decide
    simp only [Dec.norm, hz, h0, if_true]
  · have hnz : NZ (canon d).digits := by
      simp only [canon, hz, if_false]
      exact ⟨hz, trimLeading_digits _ h.2, trimLeading_head _⟩
    obtain ⟨p, hp1, hp2⟩ := num_roundtrip_nz (canon d).neg (canon d).digits (canon d).exp hnz
    have hcd : (⟨(canon d).neg, (canon d).digits, (canon d).exp⟩ : Dec) = canon d := rfl
    rw [hcd] at hp1 hp2
    rw [hp1]
    simp only [Option.getD_some]
    rw [hp2, norm_canon_nz d hz]

mutual
  /-- **The round trip keeps what the document denotes**: numbers by value, objects as maps -/
  theorem sem_rt : ∀ j : J, NoDefault j → NumsOK j → sem (rt j) = sem j
    | .null, _, _ => rfl
    | .bool _, _, _ => rfl
    | .num d, _, h => by simp only [rt, sem]; rw [norm_reparse d h]
    | .str _, _, _ => rfl
    | .arr l, h1, h2 => by simp only [rt, sem]; rw [semL_rtL l h1 h2]
    | .obj l, h1, h2 => by
      simp only [rt, sem]
      rw [semO_rtO .nil l h1 h2]
      congr 1
      funext q
      cases semO l q <;> simp [semO]
  theorem semL_rtL : ∀ l : JL, NoDefaultL l → NumsOKL l → semL (rtL l) = semL l
    | .nil, _, _ => rfl
    | .cons x rest, h1, h2 => by
      simp only [rtL, semL]
      rw [sem_rt x h1.1 h2.1, semL_rtL rest h1.2 h2.2]
  theorem semO_rtO : ∀ (acc : JO) (l : JO), NoDefaultO l → NumsOKO l →
      semO (rtO acc l) = fun q => match semO l q with | some x => some x | none => semO acc q
    | acc, .nil, _, _ => by funext q; simp [rtO, semO]
    | acc, .cons k v rest, h1, h2 => by
      simp only [rtO, h1.1, if_false]
      rw [semO_rtO (ins k (rt v) acc) rest h1.2.2 h2.2]
      funext q
      rw [semO_ins, sem_rt v h1.2.1 h2.1]
      simp only [semO]
      cases semO rest q with
      | some x => rfl
      | none =>
        simp only
        by_cases hq : q = k
        · subst hq; simp
        · have : ¬ k = q := fun e => hq e.symm
          simp [hq, this]
end

end GoflowModel.Json
