import GoflowModel.Excellent.LegacyRefs
import GoflowModel.Lemmas.LegacyFull
import GoflowModel.Lemmas.ExprParseShape
/-! Every migrated context reference is an atom of the new language in the shape the parser
produces (names as the printer writes them: lower case), so wherever the visitor substitutes it no
parentheses are needed and its printed tokens parse back to the same tree. -/
namespace GoflowModel.LegacyRefs
open GoflowModel.Expr GoflowModel.Expr.Full GoflowModel.LegacyFull

/-- parser-shaped (names lowered) and an atom -/
def GA (e : Expr) : Prop := Shape (.e (norm e)) ∧ isAtom e = true

/-- parser-shaped (names lowered); for parameters -/
def SN (e : Expr) : Prop := Shape (.e (norm e))

theorem ga_ref (r : Seg) : GA (.ref r) := ⟨.ref (lowerName_idem r), rfl⟩

theorem ga_dot {c : Expr} (h : GA c) (l : Seg) : GA (.dot c l) :=
  ⟨.dot h.1 (by rw [isAtom_norm]; exact h.2), rfl⟩

theorem ga_idx {c i : Expr} (h : GA c) (hi : SN i) : GA (.idx c i) :=
  ⟨.idx h.1 (by rw [isAtom_norm]; exact h.2) hi, rfl⟩

theorem sn_text (v : List Char) : SN (.text v) := .text (literal_requote Tables.isPrint_newline v)

theorem sn_num {d : List Char} (h : numValue d = d) : SN (.num d) := .num h

theorem ga_look {c : Expr} (h : GA c) (s : Seg) : GA (look c s) := by
  unfold look
  split
  · split
    · exact ga_idx h (sn_text _)
    · exact ga_dot h _
  · exact ga_dot h _

theorem ga_foldl_look : ∀ (ls : List Seg) (c : Expr), GA c → GA (ls.foldl look c)
  | [], _, h => h
  | l :: ls, c, h => ga_foldl_look ls _ (ga_look h l)

theorem ga_foldl_dot : ∀ (ls : List Seg) (c : Expr), GA c → GA (ls.foldl Expr.dot c)
  | [], _, h => h
  | l :: ls, c, h => ga_foldl_dot ls _ (ga_dot h l)

theorem ga_pathOf (segs : List Seg) : GA (pathOf segs) := by
  cases segs with
  | nil => exact ga_ref _
  | cons r ls => exact ga_foldl_look ls _ (ga_ref r)

theorem ga_rawPath (segs : List Seg) : GA (rawPath segs) := by
  cases segs with
  | nil => exact ga_ref _
  | cons r ls => exact ga_foldl_dot ls _ (ga_ref r)

theorem shape_normArgs : ∀ (args : List Expr), (∀ e ∈ args, SN e) → Shape (.a (normArgs (toArgs args)))
  | [], _ => .argsNil
  | e :: rest, h => .argsCons (h e (by simp)) (shape_normArgs rest (fun x hx => h x (by simp [hx])))

theorem ga_fn (name : String) {args : List Expr} (h : ∀ e ∈ args, SN e) : GA (fn name args) :=
  ⟨.call (.ref (lowerName_idem _)) rfl (shape_normArgs args h), rfl⟩

theorem sn_of_ga {e : Expr} (h : GA e) : SN e := h.1

theorem sn_neg_num {d : List Char} (h : numValue d = d) : SN (.neg (.num d)) := .neg (.num h) (by simp [norm, level])

theorem all0 : ∀ e ∈ ([] : List Expr), SN e := fun _ h => by cases h

/-- a list of parameters, each shown to be parser-shaped -/
theorem all1 {a : Expr} (ha : SN a) : ∀ e ∈ [a], SN e := by
  intro e he; simp only [List.mem_cons, List.not_mem_nil, or_false] at he; subst he; exact ha
theorem all2 {a b : Expr} (ha : SN a) (hb : SN b) : ∀ e ∈ [a, b], SN e := by
  intro e he; simp only [List.mem_cons, List.not_mem_nil, or_false] at he
  rcases he with rfl | rfl
  · exact ha
  · exact hb
theorem all3 {a b c : Expr} (ha : SN a) (hb : SN b) (hc : SN c) : ∀ e ∈ [a, b, c], SN e := by
  intro e he; simp only [List.mem_cons, List.not_mem_nil, or_false] at he
  rcases he with rfl | rfl | rfl
  · exact ha
  · exact hb
  · exact hc

theorem ga_contactRule (schemes pfx rest : List Seg) (e : Expr) (h : contactRule schemes pfx rest = some e) : GA e := by
  unfold contactRule at h
  repeat' split at h
  all_goals first
    | cases h
    | skip
  all_goals first
    | exact ga_pathOf _
    | exact ga_fn _ (all1 (sn_of_ga (ga_pathOf _)))
    | exact ga_fn _ (all2 (sn_of_ga (ga_pathOf _)) (sn_text _))
    | exact ga_fn _ (all2 (sn_of_ga (ga_dot (ga_fn _ (all1 (sn_of_ga (ga_pathOf _)))) _)) (sn_text _))
    | exact ga_dot (ga_fn _ (all1 (sn_of_ga (ga_pathOf _)))) _

theorem ga_contactGroup (schemes segs : List Seg) (e : Expr) (h : contactGroup schemes segs = some e) : GA e := by
  unfold contactGroup at h
  simp only at h
  repeat' split at h
  all_goals first
    | exact ga_contactRule _ _ _ _ h
    | (cases h; exact ga_pathOf _)
    | cases h

theorem ga_resultsRule (root rest : List Seg) (e : Expr) (h : resultsRule root rest = some e) : GA e := by
  unfold resultsRule at h
  repeat' split at h
  all_goals first
    | cases h
    | skip
  all_goals exact ga_pathOf _

theorem ga_dated (raw : Bool) {e : Expr} (h : GA e) : GA (dated raw e) := by
  unfold dated
  split
  · exact h
  · exact ga_fn _ (all1 (sn_of_ga h))

theorem one_canonical : numValue ['1'] = ['1'] := by decide

/-- an index into the attachments is a number as it renders -/
def IndexOK (segs : List Seg) : Prop := ∀ d ∈ segs, isDigits d = true → numValue d = d

theorem ga_extraRule (rest : List Seg) (e : Expr) (h : extraRule rest = some e) : GA e := by
  unfold extraRule at h
  split at h
  · split at h
    · split at h
      · rename_i e' he
        cases h
        exact ga_resultsRule _ _ _ he
      · cases h; exact ga_pathOf _
    · cases h; exact ga_pathOf _
  · cases h; exact ga_pathOf _

theorem ga_stepRule (rest : List Seg) (hi : IndexOK rest) (e : Expr) (h : stepRule rest = some e) : GA e := by
  unfold stepRule at h
  split at h
  · cases h; exact ga_pathOf _
  · repeat' split at h
    all_goals first
      | (cases h; exact ga_pathOf _)
      | (cases h; exact ga_fn _ (all3 (sn_of_ga (ga_fn _ (all2 (sn_of_ga (ga_pathOf _)) (sn_of_ga (ga_ref _))))) (sn_of_ga (ga_ref _)) (sn_text _)))
      | cases h
  · split at h
    · rename_i p d hc
      cases h
      have hd : numValue d = d := hi d (by simp) hc.2
      exact ga_dot (ga_fn _ (all1 (sn_of_ga (ga_idx (ga_pathOf _) (sn_num hd))))) _
    · cases h
  · cases h

theorem ga_channelRule (rest : List Seg) (e : Expr) (h : channelRule rest = some e) : GA e := by
  unfold channelRule at h
  repeat' split at h
  all_goals first
    | (cases h; exact ga_pathOf _)
    | cases h

theorem ga_dateRule (raw : Bool) (rest : List Seg) (e : Expr) (h : dateRule raw rest = some e) : GA e := by
  unfold dateRule at h
  repeat' split at h
  all_goals first
    | (cases h; exact ga_dated _ (ga_fn _ (all3 (sn_of_ga (ga_fn _ all0)) (sn_num one_canonical) (sn_text _))))
    | (cases h; exact ga_dated _ (ga_fn _ (all3 (sn_of_ga (ga_fn _ all0)) (sn_neg_num one_canonical) (sn_text _))))
    | (cases h; exact ga_dated _ (ga_fn _ all0))
    | (cases h; exact ga_fn _ all0)
    | cases h

theorem ga_otherRules (raw : Bool) (segs : List Seg) (hi : IndexOK segs) (e : Expr) (h : otherRules raw segs = some e) : GA e := by
  unfold otherRules at h
  split at h
  · rename_i hd rest
    have hi' : IndexOK rest := fun d hd' => hi d (by simp [hd'])
    repeat' split at h
    all_goals first
      | exact ga_resultsRule _ _ _ h
      | exact ga_extraRule _ _ h
      | exact ga_stepRule _ hi' _ h
      | exact ga_channelRule _ _ h
      | exact ga_dateRule _ _ _ h
      | cases h
  · cases h

/-- **Every migrated reference is a parser-shaped atom.** -/
theorem ga_migRef (schemes : List Seg) (raw : Bool) (segs : List Seg) (hi : IndexOK segs) : GA (migRef schemes raw segs) := by
  unfold migRef
  split
  · rename_i e he; exact ga_contactGroup _ _ _ he
  · split
    · rename_i e he; exact ga_otherRules _ _ hi _ he
    · exact ga_rawPath _

end GoflowModel.LegacyRefs
