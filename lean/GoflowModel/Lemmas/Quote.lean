import GoflowModel.Basic.Quote
/-! Helper lemmas for the quoting round trip (used by `Props/C12.lean`, `Props/C14.lean`). -/
namespace GoflowModel.Quote

theorem unhex_hexDigit (d : Nat) (h : d < 16) : unhex (hexDigit d) = some d := by
  have : ∀ d : Fin 16, unhex (hexDigit d.val) = some d.val := by decide
  exact this ⟨d, h⟩

theorem parseHex_hex2 (n : Nat) (h : n < 256) : parseHex (hex2 n) = some n := by
  simp only [hex2, parseHex, unhex_hexDigit (n / 16 % 16) (by omega), unhex_hexDigit (n % 16) (by omega)]
  simp
  omega

theorem parseHex_hex4 (n : Nat) (h : n < 65536) : parseHex (hex4 n) = some n := by
  simp only [hex4, hex2, List.cons_append, List.nil_append, parseHex,
    unhex_hexDigit (n / 256 / 16 % 16) (by omega), unhex_hexDigit (n / 256 % 16) (by omega),
    unhex_hexDigit (n % 256 / 16 % 16) (by omega), unhex_hexDigit (n % 256 % 16) (by omega)]
  simp
  omega

theorem parseHex_hex8 (n : Nat) (h : n < 4294967296) : parseHex (hex8 n) = some n := by
  simp only [hex8, hex4, hex2, List.cons_append, List.nil_append, parseHex,
    unhex_hexDigit (n / 65536 / 256 / 16 % 16) (by omega), unhex_hexDigit (n / 65536 / 256 % 16) (by omega),
    unhex_hexDigit (n / 65536 % 256 / 16 % 16) (by omega), unhex_hexDigit (n / 65536 % 256 % 16) (by omega),
    unhex_hexDigit (n % 65536 / 256 / 16 % 16) (by omega), unhex_hexDigit (n % 65536 / 256 % 16) (by omega),
    unhex_hexDigit (n % 65536 % 256 / 16 % 16) (by omega), unhex_hexDigit (n % 65536 % 256 % 16) (by omega)]
  simp
  omega

theorem unqGo_raw (c : Char) (r : List Char) (h1 : c ≠ '"') (h2 : c ≠ '\n') (h3 : c ≠ '\\') :
    unqGo (c :: r) = (unqGo r).cons c := by
  rw [unqGo.eq_def]
  split <;> simp_all

theorem char_valid (c : Char) : validRune c.toNat = true := by
  have h := c.valid
  simp only [validRune, decide_eq_true_eq]
  have : c.toNat = c.val.toNat := rfl
  rcases h with h | h
  · left; simp only [Char.toNat]; exact h
  · right; simp only [Char.toNat]; omega

theorem char_lt (c : Char) : c.toNat < 4294967296 := by
  have := char_valid c
  simp only [validRune, decide_eq_true_eq] at this
  omega

theorem unqGo_x (n : Nat) (r : List Char) (h : n < 0x80) :
    unqGo ('\\' :: 'x' :: (hex2 n ++ r)) = (unqGo r).cons (Char.ofNat n) := by
  have := parseHex_hex2 n (by omega)
  simp only [hex2] at this
  simp only [hex2, List.cons_append, List.nil_append, unqGo, this]
  simp [h]

theorem unqGo_u (n : Nat) (r : List Char) (h : n < 65536) (hv : validRune n = true) :
    unqGo ('\\' :: 'u' :: (hex4 n ++ r)) = (unqGo r).cons (Char.ofNat n) := by
  have := parseHex_hex4 n h
  simp only [hex4, hex2, List.cons_append, List.nil_append] at this
  simp only [hex4, hex2, List.cons_append, List.nil_append, unqGo, this]
  simp [hv]

theorem unqGo_U (n : Nat) (r : List Char) (h : n < 4294967296) (hv : validRune n = true) :
    unqGo ('\\' :: 'U' :: (hex8 n ++ r)) = (unqGo r).cons (Char.ofNat n) := by
  have := parseHex_hex8 n h
  simp only [hex8, hex4, hex2, List.cons_append, List.nil_append] at this
  simp only [hex8, hex4, hex2, List.cons_append, List.nil_append, unqGo, this]
  simp [hv]

theorem ofNat_toNat (c : Char) : Char.ofNat c.toNat = c := by
  simp

/-- one escaped rune is read back as that rune -/
theorem unqGo_escRune (pr : Char → Bool) (hpr : pr '\n' = false) (c : Char) (r : List Char) :
    unqGo (escRune pr c ++ r) = (unqGo r).cons c := by
  unfold escRune
  split
  · rename_i h
    rcases h with h | h <;> subst h <;> simp only [List.cons_append, List.nil_append, unqGo]
  · rename_i hq
    have hq1 : c ≠ '"' := fun h => hq (Or.inl h)
    have hq2 : c ≠ '\\' := fun h => hq (Or.inr h)
    split
    · rename_i hp
      have : c ≠ '\n' := by intro h; subst h; simp [hpr] at hp
      simpa using unqGo_raw c r hq1 this hq2
    · repeat' split
      all_goals first
        | (rename_i h; subst h; simp only [List.cons_append, List.nil_append, unqGo]; done)
        | skip
      · rename_i h
        have hlt : c.toNat < 0x80 := by omega
        rw [List.cons_append, List.cons_append, unqGo_x _ _ hlt, ofNat_toNat]
      · rename_i h
        rw [List.cons_append, List.cons_append, unqGo_u _ _ h (char_valid c), ofNat_toNat]
      · rw [List.cons_append, List.cons_append, unqGo_U _ _ (char_lt c) (char_valid c), ofNat_toNat]

theorem unqGo_escBody (pr : Char → Bool) (hpr : pr '\n' = false) (s r : List Char) :
    unqGo (escBody pr s ++ r) = s.foldr UnqResult.cons (unqGo r) := by
  induction s with
  | nil => simp [escBody]
  | cons c s ih =>
    simp only [escBody, List.flatMap_cons, List.append_assoc, List.foldr_cons] at *
    rw [unqGo_escRune pr hpr, ih]

theorem foldr_cons_ok (s : List Char) : s.foldr UnqResult.cons (.ok []) = .ok s := by
  induction s with
  | nil => rfl
  | cons c s ih => simp [List.foldr_cons, ih, UnqResult.cons]

theorem unqGo_close : unqGo ['"'] = .ok [] := by simp only [unqGo]

/-- `strconv.Unquote (strconv.Quote s) = s` -/
theorem unquote_quote (pr : Char → Bool) (hpr : pr '\n' = false) (s : List Char) :
    unquote (quote pr s) = .ok s := by
  simp only [quote, unquote]
  rw [unqGo_escBody pr hpr, unqGo_close, foldr_cons_ok]

theorem unqGo_escRuneSafe (pr : Char → Bool) (hpr : pr '\n' = false) (c : Char) (r : List Char) :
    unqGo (escRuneSafe pr c ++ r) = (unqGo r).cons c := by
  unfold escRuneSafe
  split
  · rename_i h; subst h
    simp only [List.cons_append, List.nil_append, unqGo]
    simp [parseHex, unhex, validRune]
  · exact unqGo_escRune pr hpr c r

theorem unqGo_escBodySafe (pr : Char → Bool) (hpr : pr '\n' = false) (s r : List Char) :
    unqGo (escBodySafe pr s ++ r) = s.foldr UnqResult.cons (unqGo r) := by
  induction s with
  | nil => simp [escBodySafe]
  | cons c s ih =>
    simp only [escBodySafe, List.flatMap_cons, List.append_assoc, List.foldr_cons] at *
    rw [unqGo_escRuneSafe pr hpr, ih]

theorem unquote_quoteSafe (pr : Char → Bool) (hpr : pr '\n' = false) (s : List Char) :
    unquote (quoteSafe pr s) = .ok s := by
  simp only [quoteSafe, unquote]
  rw [unqGo_escBodySafe pr hpr, unqGo_close, foldr_cons_ok]

end GoflowModel.Quote
