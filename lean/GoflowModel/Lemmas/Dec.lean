import GoflowModel.Basic.Dec
/-! List lemmas about trimming zeros, for the number round trip (C13). -/
namespace GoflowModel.Dec

theorem dropWhile_zero_replicate_append (n : Nat) (l : List Char) :
    (List.replicate n '0' ++ l).dropWhile (· = '0') = l.dropWhile (· = '0') := by
  induction n with
  | zero => simp
  | succ n ih => simp [List.replicate_succ, List.dropWhile_cons, ih]

theorem takeWhile_zero_replicate_append (n : Nat) (l : List Char) :
    ((List.replicate n '0' ++ l).takeWhile (· = '0')).length = n + (l.takeWhile (· = '0')).length := by
  induction n with
  | zero => simp
  | succ n ih => simp [List.replicate_succ, List.takeWhile_cons, ih]; omega

theorem reverse_append_replicate (l : List Char) (n : Nat) :
    (l ++ List.replicate n '0').reverse = List.replicate n '0' ++ l.reverse := by
  simp [List.reverse_append]

/-- L1 -/
theorem trimTrailing_append_zeros (l : List Char) (n : Nat) :
    trimTrailingZeros (l ++ List.replicate n '0') = trimTrailingZeros l := by
  simp only [trimTrailingZeros, reverse_append_replicate, dropWhile_zero_replicate_append]

/-- L2 -/
theorem trailingZeros_append_zeros (l : List Char) (n : Nat) :
    trailingZeros (l ++ List.replicate n '0') = trailingZeros l + n := by
  simp only [trailingZeros, reverse_append_replicate, takeWhile_zero_replicate_append]; omega

theorem takeWhile_zero_eq_replicate (l : List Char) :
    l.takeWhile (· = '0') = List.replicate (l.takeWhile (· = '0')).length '0' := by
  induction l with
  | nil => simp
  | cons c l ih =>
    simp only [List.takeWhile_cons]
    split
    · rename_i h
      have hc : c = '0' := by simpa using h
      subst hc
      simp only [List.length_cons, List.replicate_succ]
      rw [← ih]
    · simp

/-- L3 -/
theorem trim_decomp (l : List Char) :
    l = trimTrailingZeros l ++ List.replicate (trailingZeros l) '0' := by
  have h := List.takeWhile_append_dropWhile (p := (· = '0')) (l := l.reverse)
  have h2 := congrArg List.reverse h
  simp only [List.reverse_append, List.reverse_reverse] at h2
  rw [takeWhile_zero_eq_replicate l.reverse] at h2
  simp only [List.reverse_replicate] at h2
  simpa [trimTrailingZeros, trailingZeros] using h2.symm

theorem dropWhile_zero_of_head_ne (l : List Char) (h : l.head? ≠ some '0') :
    l.dropWhile (· = '0') = l := by
  cases l with
  | nil => rfl
  | cons c l =>
    have : c ≠ '0' := by intro e; subst e; simp at h
    simp [List.dropWhile_cons, this]

theorem takeWhile_zero_of_head_ne (l : List Char) (h : l.head? ≠ some '0') :
    l.takeWhile (· = '0') = [] := by
  cases l with
  | nil => rfl
  | cons c l =>
    have : c ≠ '0' := by intro e; subst e; simp at h
    simp [List.takeWhile_cons, this]

/-- the trimmed list does not end in a zero -/
theorem trim_last_ne (l : List Char) : (trimTrailingZeros l).getLast? ≠ some '0' := by
  simp only [trimTrailingZeros, List.getLast?_reverse]
  generalize l.reverse = r
  induction r with
  | nil => simp
  | cons c r ih =>
    simp only [List.dropWhile_cons]
    split
    · exact ih
    · rename_i h
      have : c ≠ '0' := by simpa using h
      simp [this]

/-- L5: a list not ending in zero is untouched, whatever precedes it -/
theorem trimTrailing_append_of_last_ne (a l : List Char) (hne : l ≠ []) (h : l.getLast? ≠ some '0') :
    trimTrailingZeros (a ++ l) = a ++ l ∧ trailingZeros (a ++ l) = 0 := by
  have hr : (a ++ l).reverse.head? ≠ some '0' := by
    rw [List.head?_reverse, List.getLast?_append]
    cases hl : l.getLast? with
    | none => simp [List.getLast?_eq_none_iff] at hl; exact absurd hl hne
    | some x => simpa [hl] using h
  constructor
  · simp only [trimTrailingZeros, dropWhile_zero_of_head_ne _ hr, List.reverse_reverse]
  · simp only [trailingZeros, takeWhile_zero_of_head_ne _ hr, List.length_nil]

theorem trimTrailing_append (a l : List Char) (h : trimTrailingZeros l ≠ []) :
    trimTrailingZeros (a ++ l) = a ++ trimTrailingZeros l ∧ trailingZeros (a ++ l) = trailingZeros l := by
  have hd := trim_decomp l
  have := trimTrailing_append_of_last_ne a (trimTrailingZeros l) h (trim_last_ne l)
  constructor
  · conv => lhs; rw [hd, ← List.append_assoc, trimTrailing_append_zeros]
    exact this.1
  · conv => lhs; rw [hd, ← List.append_assoc, trailingZeros_append_zeros]
    rw [this.2]; omega

theorem trimTrailing_idem (l : List Char) : trimTrailingZeros (trimTrailingZeros l) = trimTrailingZeros l ∧
    trailingZeros (trimTrailingZeros l) = 0 := by
  by_cases h : trimTrailingZeros l = []
  · rw [h]; simp [trimTrailingZeros, trailingZeros]
  · have := trimTrailing_append_of_last_ne [] (trimTrailingZeros l) h (trim_last_ne l)
    simpa using this

theorem trimTrailing_all_zero (n : Nat) : trimTrailingZeros (List.replicate n '0') = [] := by
  have := trimTrailing_append_zeros [] n
  simp only [List.nil_append] at this
  rw [this]; rfl

theorem trimTrailing_eq_nil_iff (l : List Char) : trimTrailingZeros l = [] ↔ l = List.replicate l.length '0' := by
  constructor
  · intro h
    have hd := trim_decomp l
    rw [h, List.nil_append] at hd
    have hl := congrArg List.length hd
    simp only [List.length_replicate] at hl
    rw [← hl] at hd; exact hd
  · intro h; rw [h]; exact trimTrailing_all_zero _

end GoflowModel.Dec
