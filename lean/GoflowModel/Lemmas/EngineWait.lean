import GoflowModel.Lemmas.EngineWalk
import GoflowModel.Lemmas.EngineChain
/-!
A session is only ever handed back waiting from `visitNode`'s wait branch: the waiting run's last
step is then on a node whose router has a wait.
-/
namespace GoflowModel.Engine

/-- run `w` is waiting and located on a node with a router that has a wait -/
def WaitsAt (a : Assets) (s : Session) (w : Nat) : Prop :=
  ∃ node, runStatus s w = some .waiting ∧ AtNode a (pf s) w node ∧ node.hasRouter = true ∧ node.wait.isSome

def VisitWait (a : Assets) (r : Nat) : VisitResult → Prop
  | .ok st' _ _ => st'.s.status = .waiting → WaitsAt a st'.s r
  | _ => True

theorem pickNodeExit_status {st st' : St} {r : Nat} {node : Node} {step : StepRef} {evs : List EvK}
    {c : RouteChoice} {e : Option (Option Nat)} (h : pickNodeExit st r node step evs c = .ok st' e) :
    st'.s.status = st.s.status := by
  have hl := (logEvents_props st r (some step) evs).2.2.2
  unfold pickNodeExit at h
  simp only at h
  split at h
  · split at h
    · cases h
    · cases h; rw [failRun_status, hl]
    · split at h
      · cases h; exact hl
      · cases h
    · cases h
  · split at h
    · split at h
      · split at h
        · cases h; exact hl
        · cases h
      · split at h
        · cases h; exact hl
        · cases h
    · cases h

theorem visitTail_wait (a : Assets) (st : St) (r : Nat) (node : Node) (step : StepRef) (vc : VisitChoice)
    (hs : st.s.status ≠ .waiting) (hat : AtNode a (pf st.s) r node) :
    VisitWait a r (visitTail st r node step vc) := by
  unfold visitTail
  split
  · trivial
  · exact fun h => absurd h hs
  · exact fun h => absurd h hs
  · split
    · exact fun h => absurd h hs
    · split
      · rename_i wk hwk _
        intro _
        refine ⟨node, ?_, ?_, ?_, ?_⟩
        · show runStatus (setStatus st.s r .waiting) r = some .waiting
          rw [runStatus_setStatus_same]
          obtain ⟨fl, p, f, t, h1, _⟩ := hat
          have : ∃ x, st.s.runs[r]? = some x := by
            simp only [pf, List.getElem?_map] at h1
            cases hx : st.s.runs[r]? with
            | none => simp [hx] at h1
            | some x => exact ⟨x, rfl⟩
          obtain ⟨x, hx⟩ := this
          simp [runStatus, hx]
        · show AtNode a (pf (setStatus st.s r .waiting)) r node
          rw [pf_setStatus]; exact hat
        · cases hr : node.hasRouter with
          | true => rfl
          | false => simp [hr] at hwk
        · cases hr : node.hasRouter with
          | true => simp [hr] at hwk; simp [hwk]
          | false => simp [hr] at hwk
      · split
        · trivial
        · rename_i st' e heq
          intro h
          rw [pickNodeExit_status heq] at h
          exact absurd h hs
        · trivial

theorem atNode_createStep {a : Assets} {st : St} {r d : Nat} {node : Node}
    (hnode : getNode a (((st.s.runs[r]?).map (·.flow)).getD 0) d = some node) (hr : r < st.s.runs.length) :
    AtNode a (pf (createStep st r d).1.s) r node := by
  obtain ⟨x, hx⟩ : ∃ x, st.s.runs[r]? = some x := ⟨_, List.getElem?_eq_getElem hr⟩
  rw [hx] at hnode
  simp only [Option.map_some, Option.getD_some, getNode] at hnode
  cases hf : getFlow a x.flow with
  | none => rw [hf] at hnode; cases hnode
  | some f =>
    rw [hf] at hnode
    simp only [Option.bind_some] at hnode
    have hL : (pf st.s)[r]? = some (x.flow, x.path) := by simp [pf, hx]
    rw [pf_createStep]
    refine ⟨x.flow, x.path ++ [⟨d, none⟩], f, ⟨d, none⟩, ?_, hf, by simp, hnode⟩
    rw [List.getElem?_modify, hL]; simp

theorem visitNode_wait (a : Assets) (st : St) (r d : Nat) (node : Node) (vc : VisitChoice)
    (hs : st.s.status ≠ .waiting)
    (hnode : getNode a (((st.s.runs[r]?).map (·.flow)).getD 0) d = some node) (hr : r < st.s.runs.length) :
    VisitWait a r (visitNode st r d node vc) := by
  unfold visitNode
  simp only
  have hat := atNode_createStep (a := a) (d := d) hnode hr
  have hl := logEvents_props (createStep st r d).1 r (some (createStep st r d).2) vc.events
  have h2 := pf_logEvents (createStep st r d).1 r (some (createStep st r d).2) vc.events
  have h3 : pf (setPushedOpt (logEvents (createStep st r d).1 r (some (createStep st r d).2) vc.events) vc.pushed).s
      = pf (createStep st r d).1.s := by
    unfold setPushedOpt
    split
    · show pf (logEvents _ _ _ _).s = _; rw [h2]
    · rw [h2]
  have h4 : (setPushedOpt (logEvents (createStep st r d).1 r (some (createStep st r d).2) vc.events) vc.pushed).s.status
      = st.s.status := by
    unfold setPushedOpt
    split
    · show (logEvents _ _ _ _).s.status = _; rw [hl.2.2.2]; rfl
    · rw [hl.2.2.2]; rfl
  apply visitTail_wait
  · rw [h4]; exact hs
  · rw [h3]; exact hat

/-! ### the loop -/

def ResWait (a : Assets) : Result → Prop
  | .ok st => st.s.status = .waiting → ∃ w, WaitsAt a st.s w
  | _ => True

def IterWait (a : Assets) : Sum Loop Result → Prop
  | .inl _ => True
  | .inr r => ResWait a r

theorem noDest_wait (a : Assets) (orc : Oracle) (l : Loop) (cur : Nat) : IterWait a (noDest a orc l cur) := by
  unfold noDest
  simp only
  generalize (if ((l.st.s.runs[cur]?).map (·.exited)).getD true then l.st.s else exitRun l.st.s cur .completed) = s
  have hend : ∀ s : Session, ({ s with status := endStatus s cur } : Session).status ≠ .waiting := by
    intro s; rcases endStatus_cases s cur with h | h <;> simp [h]
  split
  · split
    · split
      · split
        · trivial
        · split <;> trivial
      · trivial
    · exact fun h => absurd h (hend _)
  · exact fun h => absurd h (hend _)

theorem goDest_wait (a : Assets) (o : Opts) (orc : Oracle) (l : Loop) (cur d : Nat)
    (hs : l.st.s.status ≠ .waiting) (hcv : cur < l.st.s.runs.length) :
    IterWait a (goDest a o orc l cur d) := by
  unfold goDest
  simp only
  split
  · trivial
  · split
    · trivial
    · rename_i node hnode
      split
      · rename_i vc _
        have hv := visitNode_wait a l.st cur d node vc hs hnode hcv
        split
        · trivial
        · trivial
        · rename_i st' step e heq
          rw [heq] at hv; simp only [VisitWait] at hv
          split
          · exact fun h => ⟨cur, hv h⟩
          · trivial
      · trivial

theorem iter_wait (a : Assets) (o : Opts) (orc : Oracle) (l : Loop) (hi : LI l) (hp : LP l) :
    IterWait a (iter a o orc l) := by
  have hpi := pickDest_post a l hi
  have hpp := pickDest_parents a l hp
  unfold iter
  simp only
  split
  · trivial
  · exact noDest_wait a orc _ _
  · rename_i cur d hcur _
    exact goDest_wait a o orc _ cur d (by rw [hpi.2.2.2.1]; exact hi.notWaiting) (hpp.curValid cur hcur)

theorem loop_wait (a : Assets) (o : Opts) (orc : Oracle) (fuel : Nat) (l : Loop) (hi : LI l) (hp : LP l) :
    ResWait a (loop a o orc fuel l) := by
  induction fuel generalizing l with
  | zero => simp [loop, ResWait]
  | succ fuel ih =>
    simp only [loop]
    have h1 := iter_wait a o orc l hi hp
    have h2 := iter_post a o orc l hi
    have h3 := iter_parents a o orc l hp
    split
    · rename_i l' heq
      rw [heq] at h2 h3
      exact ih l' h2 h3
    · rename_i r heq
      rw [heq] at h1
      exact h1

theorem start_wait (a : Assets) (o : Opts) (orc : Oracle) : ResWait a (start a o orc) := by
  unfold start
  simp only
  split
  · trivial
  · apply loop_wait
    · refine ⟨?_, ?_, by simp⟩
      · unfold SessOK; intro i x hx; simp [logSprintOnly, emptySession] at hx
      · simp [logSprintOnly, emptySession]
    · refine ⟨?_, by simp⟩
      simp [PBC, parents, logSprintOnly, emptySession]

theorem resume_wait (a : Assets) (o : Opts) (orc : Oracle) (s : Session) (k : ResumeKind)
    (hok : SessOK s) (hpush : s.pushed = none) (hpbc : PBC s) :
    ResWait a (resume a o orc s k) := by
  unfold resume
  simp only
  have hfs : ∀ (st : St) w, ResWait a (.ok (failSession st w)) := by
    intro st w h; simp [failSession] at h
  split
  · trivial
  · split
    · trivial
    · rename_i w hwr
      split
      · exact hfs _ w
      · split
        · exact hfs _ w
        · split
          · exact hfs _ w
          · rename_i step node _
            split
            · exact hfs _ w
            · split
              · trivial
              · have ha := applyResume_props orc ⟨{ s with status := .active }, []⟩ w step k hok
                have hap := parents_applyResume orc ⟨{ s with status := .active }, []⟩ w step k
                generalize applyResume orc ⟨{ s with status := .active }, []⟩ w step k = st1 at ha hap
                have hf := findResumeExit_post a orc st1 w ha.1
                have hfp := findResumeExit_parents a orc st1 w
                split
                · exact hfs _ w
                · trivial
                · rename_i st' e heq
                  rw [heq] at hf hfp
                  simp only [FindPost] at hf
                  simp only [FindParents] at hfp
                  have e1 : parents st'.s = parents s := by rw [hfp, hap]; rfl
                  apply loop_wait
                  · refine ⟨hf.1, ?_, fun he => ⟨?_, w, rfl, hf.2.2.2 he⟩⟩
                    · rw [hf.2.1, ha.2.2]; simp
                    · rw [hf.2.2.1, ha.2.1]; exact hpush
                  · refine ⟨PBC_of_parents_eq e1 hpbc, ?_⟩
                    intro c hcc
                    simp only [Option.some.injEq] at hcc
                    subst hcc
                    have := congrArg List.length e1
                    simp only [parents, List.length_map] at this
                    have := waitingRun_lt s w hwr
                    show w < st'.s.runs.length
                    omega

/-- `AtNode` is what `PathLocation` computes -/
theorem pathLocation_of_atNode {a : Assets} {s : Session} {w : Nat} {node : Node} (h : AtNode a (pf s) w node) :
    ∃ step, pathLocation a s w = some (step, node) := by
  obtain ⟨fl, p, f, t, h1, h2, h3, h4⟩ := h
  simp only [pf, List.getElem?_map] at h1
  cases hx : s.runs[w]? with
  | none => simp [hx] at h1
  | some x =>
    simp only [hx, Option.map_some, Option.some.injEq, Prod.mk.injEq] at h1
    obtain ⟨e1, e2⟩ := h1
    subst e1; subst e2
    refine ⟨⟨w, x.path.length - 1⟩, ?_⟩
    simp [pathLocation, hx, h3, getNode, h2, h4]

end GoflowModel.Engine
