import GoflowModel.ContactQL.Parser
import GoflowModel.Lemmas.CQL
/-!
Printing a simplified query and parsing the printed tokens gives the query back.
A fuel-free relational reading of the part of the parser that printed queries exercise
(conditions, parentheses, `AND`/`OR` chains), proved sound against the executable parser, and
complete on printed queries; then `Simplify` flattens the left-nested tree the parser builds.
-/
namespace GoflowModel.ContactQL

inductive NT where
  | expr (p : Nat)
  | ops (p : Nat) (acc : Node)
  | primary

/-- the operator loop at level `p` stops here -/
def stopsQ (p : Nat) : List Tok → Prop
  | [] => True
  | t :: _ => (t.kind = .and → ¬ p ≤ 6) ∧ (t.kind = .or → ¬ p ≤ 4) ∧
      (t.kind ≠ .and → t.kind ≠ .or → startsExpr t = true → ¬ p ≤ 5)

inductive QParses (env : PEnv) : NT → List Tok → Node → List Tok → Prop where
  | expr {p ts l r1 e r2} : QParses env .primary ts l r1 → QParses env (.ops p l) r1 e r2 → QParses env (.expr p) ts e r2
  | stepAnd {p l t ts r ts' e rest} : t.kind = .and → p ≤ 6 → QParses env (.expr 7) ts r ts' →
      QParses env (.ops p (.comb true [l, r])) ts' e rest → QParses env (.ops p l) (t :: ts) e rest
  | stepOr {p l t ts r ts' e rest} : t.kind = .or → p ≤ 4 → QParses env (.expr 5) ts r ts' →
      QParses env (.ops p (.comb false [l, r])) ts' e rest → QParses env (.ops p l) (t :: ts) e rest
  | stop {p l ts} : stopsQ p ts → QParses env (.ops p l) ts l ts
  | paren {t ts e t2 rest} : t.kind = .lparen → QParses env (.expr 0) ts e (t2 :: rest) → t2.kind = .rparen →
      QParses env .primary (t :: ts) e rest
  | cond {t c v rest op value pt key} : t.kind = .property → c.kind = .comparator →
      opOfText (env.lower c.text) = some op → literalOf v = some value →
      resolveProp env (env.lower t.text) = some (pt, key) →
      QParses env .primary (t :: c :: v :: rest) (.cond ⟨pt, key, op, value⟩) rest

def run (env : PEnv) (fuel : Nat) : NT → List Tok → Option (Node × List Tok)
  | .expr p, ts => parseExpr env fuel p ts
  | .ops p acc, ts => parseOps env fuel p acc ts
  | .primary, ts => parsePrimary env fuel ts

theorem parseOps_stops (env : PEnv) (f p : Nat) (l : Node) (ts : List Tok) (h : stopsQ p ts) :
    parseOps env (f + 1) p l ts = some (l, ts) := by
  unfold parseOps
  cases ts with
  | nil => rfl
  | cons t rest =>
    simp only [stopsQ] at h
    simp only
    by_cases ha : t.kind = .and
    · simp [ha, h.1 ha]
    · by_cases ho : t.kind = .or
      · simp [ha, ho, h.2.1 ho]
      · by_cases hs : startsExpr t = true
        · simp [ha, ho, hs, h.2.2 ha ho hs]
        · simp [ha, ho, hs]

/-- **Soundness of the relational reading** -/
theorem run_of_qparses {env : PEnv} {nt : NT} {ts : List Tok} {e : Node} {rest : List Tok}
    (h : QParses env nt ts e rest) : ∃ f0, ∀ f, f0 ≤ f → run env f nt ts = some (e, rest) := by
  induction h with
  | @expr p ts l r1 e r2 _ _ ih1 ih2 =>
    obtain ⟨a, ha⟩ := ih1
    obtain ⟨b, hb⟩ := ih2
    refine ⟨a + b + 1, fun f hf => ?_⟩
    obtain ⟨g, rfl⟩ : ∃ g, f = g + 1 := ⟨f - 1, by omega⟩
    simp only [run, parseExpr] at ha hb ⊢
    rw [ha g (by omega)]
    exact hb g (by omega)
  | @stepAnd p l t ts r ts' e rest hk hp _ _ ih1 ih2 =>
    obtain ⟨a, ha⟩ := ih1
    obtain ⟨b, hb⟩ := ih2
    refine ⟨a + b + 1, fun f hf => ?_⟩
    obtain ⟨g, rfl⟩ : ∃ g, f = g + 1 := ⟨f - 1, by omega⟩
    simp only [run] at ha hb ⊢
    simp only [parseOps, hk, hp, if_true]
    rw [ha g (by omega)]
    exact hb g (by omega)
  | @stepOr p l t ts r ts' e rest hk hp _ _ ih1 ih2 =>
    obtain ⟨a, ha⟩ := ih1
    obtain ⟨b, hb⟩ := ih2
    refine ⟨a + b + 1, fun f hf => ?_⟩
    obtain ⟨g, rfl⟩ : ∃ g, f = g + 1 := ⟨f - 1, by omega⟩
    simp only [run] at ha hb ⊢
    have hna : ¬ t.kind = .and := by rw [hk]; decide
    simp only [parseOps, hna, hk, hp, if_true, if_false]
    rw [ha g (by omega)]
    exact hb g (by omega)
  | @stop p l ts hs =>
    refine ⟨1, fun f hf => ?_⟩
    obtain ⟨g, rfl⟩ : ∃ g, f = g + 1 := ⟨f - 1, by omega⟩
    exact parseOps_stops env g p l ts hs
  | @paren t ts e t2 rest hk _ hk2 ih =>
    obtain ⟨a, ha⟩ := ih
    refine ⟨a + 1, fun f hf => ?_⟩
    obtain ⟨g, rfl⟩ : ∃ g, f = g + 1 := ⟨f - 1, by omega⟩
    simp only [run] at ha ⊢
    simp only [parsePrimary, hk, if_true]
    rw [ha g (by omega)]
    simp [hk2]
  | @cond t c v rest op value pt key hk hc hop hv hr =>
    refine ⟨1, fun f hf => ?_⟩
    obtain ⟨g, rfl⟩ : ∃ g, f = g + 1 := ⟨f - 1, by omega⟩
    simp [run, parsePrimary, hk, hc, hop, hv, hr]

/-! ### printed queries -/

/-- a condition that prints to tokens denoting it: its property text is in lower case, an attribute
is a known attribute without a dot -/
def CondOK (env : PEnv) (c : Cond) : Prop :=
  env.lower (propText c) = propText c ∧ env.lower c.op.text = c.op.text ∧
  (c.ptype = .attr → env.isAttr c.key = true ∧ splitDot c.key = none)

def sameOp (a : Bool) : Node → Bool
  | .comb b _ => a == b
  | .cond _ => false

mutual
  /-- simplified queries: a combination has at least two children, none of them a combination
  with the same operator -/
  def Simp (env : PEnv) : Node → Prop
    | .cond c => CondOK env c
    | .comb a cs => 2 ≤ cs.length ∧ SimpL env a cs
  def SimpL (env : PEnv) (a : Bool) : List Node → Prop
    | [] => True
    | n :: ns => Simp env n ∧ sameOp a n = false ∧ SimpL env a ns
end

theorem splitDot_prefix (p k : List Char) (hp : '.' ∉ p) : splitDot (p ++ '.' :: k) = some (p, k) := by
  induction p with
  | nil => rfl
  | cons c p ih =>
    have hc : c ≠ '.' := fun e => hp (by simp [e])
    have := ih (fun h => hp (by simp [h]))
    simp only [List.cons_append, splitDot]
    rw [this]; rfl

theorem resolve_printed (env : PEnv) (c : Cond) (h : CondOK env c) :
    resolveProp env (env.lower (propText c)) = some (c.ptype, c.key) := by
  rw [h.1]
  obtain ⟨pt, key, op, v⟩ := c
  cases pt with
  | field =>
    have : splitDot ("fields.".toList ++ key) = some ("fields".toList, key) :=
      splitDot_prefix "fields".toList key (by decide)
    simp only [propText, resolveProp, this]
    simp
  | urn =>
    have : splitDot ("urns.".toList ++ key) = some ("urns".toList, key) :=
      splitDot_prefix "urns".toList key (by decide)
    simp only [propText, resolveProp, this]
    have : ("urns".toList = "fields".toList) = False := by decide
    simp [this]
  | attr =>
    have := h.2.2 rfl
    simp only [propText, resolveProp] at this ⊢
    simp [this.1, this.2]

theorem opOfText_text (o : Op) : opOfText o.text = some o := by cases o <;> decide

theorem literal_printed (pr : Char → Bool) (hpr : pr '\n' = false) (v : List Char) :
    literalOf (valueTok pr v) = some v := by
  unfold valueTok
  split
  · split <;> rfl
  · show Quote.literalValue (quoteValue pr v) = some v
    rw [quoteValue_eq]
    simp only [Quote.literalValue, Quote.unquote, valueBody_unq pr hpr v]


/-! ### what `Simplify` makes of the left-nested tree the parser builds -/

/-- `((t₁ ∘ t₂) ∘ t₃) ∘ …` -/
def chain (a : Bool) (t1 : Node) (ts : List Node) : Node := ts.foldl (fun acc t => .comb a [acc, t]) t1

def flat (a : Bool) : List Node → Node
  | [x] => x
  | l => .comb a l

/-- tree by tree, `ts` simplify to `cs` -/
def SimpTo : List Node → List Node → Prop
  | [], [] => True
  | t :: ts, c :: cs => simplify t = some c ∧ SimpTo ts cs
  | _, _ => False

theorem promote_keep (a : Bool) (x : Node) (r : List Node) (h : sameOp a x = false) :
    promote a (x :: r) = x :: promote a r := by
  cases x with
  | cond c => rfl
  | comb b gs =>
    have : ¬ b = a := by
      intro e; subst e; simp [sameOp] at h
    simp [promote, this]

theorem promote_all_keep (a : Bool) (l : List Node) (h : ∀ c ∈ l, sameOp a c = false) : promote a l = l := by
  induction l with
  | nil => rfl
  | cons x r ih =>
    rw [promote_keep a x r (h x (by simp)), ih (fun c hc => h c (by simp [hc]))]

theorem simplify_pair (a : Bool) (accT t : Node) (accs : List Node) (c : Node)
    (h1 : simplify accT = some (flat a accs)) (hne : accs ≠ []) (hk : ∀ x ∈ accs, sameOp a x = false)
    (h2 : simplify t = some c) (hc : sameOp a c = false) :
    simplify (.comb a [accT, t]) = some (flat a (accs ++ [c])) := by
  simp only [simplify, simplifyList, h1, h2]
  match accs, hne, hk with
  | [x], _, hk =>
    have hx := hk x (by simp)
    simp only [flat]
    rw [promote_keep a x _ hx, promote_keep a c _ hc]
    simp [promote, flat]
  | x :: y :: r, _, hk =>
    simp only [flat]
    have hp : promote a [.comb a (x :: y :: r), c] = (x :: y :: r) ++ [c] := by
      simp only [promote, if_true]
      rw [promote_keep a c _ hc]
      simp [promote]
    rw [hp]
    simp [flat]

theorem simplify_chain (a : Bool) : ∀ (ts cs : List Node) (accT : Node) (accs : List Node),
    SimpTo ts cs → (∀ c ∈ cs, sameOp a c = false) → simplify accT = some (flat a accs) → accs ≠ [] →
    (∀ x ∈ accs, sameOp a x = false) → simplify (chain a accT ts) = some (flat a (accs ++ cs))
  | [], [], accT, accs, _, _, h1, _, _ => by simpa [chain] using h1
  | [], _ :: _, _, _, h, _, _, _, _ => by simp [SimpTo] at h
  | _ :: _, [], _, _, h, _, _, _, _ => by simp [SimpTo] at h
  | t :: ts, c :: cs, accT, accs, h, hcs, h1, hne, hk => by
    simp only [SimpTo] at h
    have hstep := simplify_pair a accT t accs c h1 hne hk h.1 (hcs c (by simp))
    have := simplify_chain a ts cs (.comb a [accT, t]) (accs ++ [c]) h.2 (fun x hx => hcs x (by simp [hx])) hstep
      (by simp) (by
        intro x hx
        simp only [List.mem_append, List.mem_singleton] at hx
        rcases hx with hx | hx
        · exact hk x hx
        · subst hx; exact hcs x (by simp))
    simp only [chain, List.foldl_cons] at this ⊢
    rw [this]; simp

/-! ### completeness on printed queries -/

def sepKind (a : Bool) : TokKind := if a then .and else .or
def rightLevel (a : Bool) : Nat := if a then 7 else 5

/-- what may follow a printed combination: the end, or the closing parenthesis -/
def okRest : List Tok → Prop
  | [] => True
  | t :: _ => t.kind = .rparen

theorem stops_okRest (p : Nat) (rest : List Tok) (h : okRest rest) : stopsQ p rest := by
  cases rest with
  | nil => trivial
  | cons t r =>
    simp only [okRest] at h
    simp only [stopsQ]
    refine ⟨fun e => ?_, fun e => ?_, fun _ _ e => ?_⟩
    · rw [h] at e; cases e
    · rw [h] at e; cases e
    · simp [startsExpr, h] at e

theorem stops_sep (a : Bool) (rest : List Tok) : stopsQ (rightLevel a) (sepTok a :: rest) := by
  cases a <;> simp [stopsQ, rightLevel, sepTok]

theorem step_sep {env : PEnv} (a : Bool) {l r e : Node} {ts ts' rest : List Tok}
    (h1 : QParses env (.expr (rightLevel a)) ts r ts')
    (h2 : QParses env (.ops 0 (.comb a [l, r])) ts' e rest) :
    QParses env (.ops 0 l) (sepTok a :: ts) e rest := by
  cases a with
  | true => exact .stepAnd (by simp [sepTok]) (by omega) h1 h2
  | false => exact .stepOr (by simp [sepTok]) (by omega) h1 h2

theorem sameOp_of_SimpL (env : PEnv) (a : Bool) : ∀ (cs : List Node), SimpL env a cs → ∀ c ∈ cs, sameOp a c = false
  | [], _, c, hc => by cases hc
  | n :: ns, h, c, hc => by
    simp only [SimpL] at h
    simp only [List.mem_cons] at hc
    rcases hc with rfl | hc
    · exact h.2.1
    · exact sameOp_of_SimpL env a ns h.2.2 c hc

mutual
  /-- a child of a printed combination (a condition, or a combination in its parentheses) is one
  primary, whose tree simplifies to the child -/
  theorem primary_printed (env : PEnv) (pr : Char → Bool) (hpr : pr '\n' = false) :
      ∀ (n : Node), Simp env n → ∀ rest, ∃ t, QParses env .primary (nodeToks pr n ++ rest) t rest ∧ simplify t = some n
    | .cond c, h, rest => by
      refine ⟨.cond c, ?_, rfl⟩
      simp only [Simp] at h
      have hc : QParses env .primary (⟨.property, propText c⟩ :: ⟨.comparator, c.op.text⟩ :: valueTok pr c.value :: rest)
          (.cond ⟨c.ptype, c.key, c.op, c.value⟩) rest :=
        .cond rfl rfl (by rw [h.2.1]; exact opOfText_text c.op) (literal_printed pr hpr c.value) (resolve_printed env c h)
      simpa [nodeToks, condToks] using hc
    | .comb a [], h, _ => by simp [Simp] at h
    | .comb a [_], h, _ => by simp [Simp] at h
    | .comb a (c1 :: c2 :: r), h, rest => by
      simp only [Simp, SimpL] at h
      obtain ⟨t1, hp1, hs1⟩ := primary_printed env pr hpr c1 h.2.1 (sepTok a :: (joinToks pr a (c2 :: r) ++ (⟨.rparen, [')']⟩ :: rest)))
      obtain ⟨ts, hrel, hops⟩ := ops_printed env pr hpr a (c2 :: r) (by simp) h.2.2.2 t1 (⟨.rparen, [')']⟩ :: rest) rfl
      have hall : ∀ c ∈ c2 :: r, sameOp a c = false := sameOp_of_SimpL env a (c2 :: r) h.2.2.2
      refine ⟨chain a t1 ts, ?_, ?_⟩
      · have hts : nodeToks pr (.comb a (c1 :: c2 :: r)) ++ rest =
            ⟨.lparen, ['(']⟩ :: (nodeToks pr c1 ++ (sepTok a :: (joinToks pr a (c2 :: r) ++ (⟨.rparen, [')']⟩ :: rest)))) := by
          simp [nodeToks, joinToks, List.append_assoc]
        rw [hts]
        exact .paren rfl (.expr hp1 hops) rfl
      · have := simplify_chain a ts (c2 :: r) t1 [c1] hrel hall (by simpa [flat] using hs1) (by simp)
          (by intro x hx; simp at hx; subst hx; exact h.2.2.1)
        simpa [flat] using this
  /-- the rest of a printed chain, after its first operand -/
  theorem ops_printed (env : PEnv) (pr : Char → Bool) (hpr : pr '\n' = false) (a : Bool) :
      ∀ (cs : List Node), cs ≠ [] → SimpL env a cs → ∀ (acc : Node) (rest : List Tok), okRest rest →
        ∃ ts, SimpTo ts cs ∧ QParses env (.ops 0 acc) (sepTok a :: (joinToks pr a cs ++ rest)) (chain a acc ts) rest
    | [], h, _, _, _, _ => absurd rfl h
    | [c], _, h, acc, rest, hr => by
      simp only [SimpL] at h
      obtain ⟨t, hp, hs⟩ := primary_printed env pr hpr c h.1 rest
      refine ⟨[t], by simp [SimpTo, hs], ?_⟩
      simp only [joinToks, chain, List.foldl_cons, List.foldl_nil]
      exact step_sep a (.expr hp (.stop (stops_okRest _ rest hr))) (.stop (stops_okRest _ rest hr))
    | c :: c2 :: r, _, h, acc, rest, hr => by
      simp only [SimpL] at h
      obtain ⟨t, hp, hs⟩ := primary_printed env pr hpr c h.1 (sepTok a :: (joinToks pr a (c2 :: r) ++ rest))
      obtain ⟨ts, hrel, hops⟩ := ops_printed env pr hpr a (c2 :: r) (by simp) h.2.2 (.comb a [acc, t]) rest hr
      refine ⟨t :: ts, by simp [SimpTo, hs, hrel], ?_⟩
      have hts : joinToks pr a (c :: c2 :: r) ++ rest = nodeToks pr c ++ (sepTok a :: (joinToks pr a (c2 :: r) ++ rest)) := by
        simp [joinToks, List.append_assoc]
      rw [hts]
      simp only [chain, List.foldl_cons]
      exact step_sep a (.expr hp (.stop (stops_sep a _))) hops
end


/-- **Completeness on a whole printed query** (`Stringify`: no outer parentheses) -/
theorem query_printed (env : PEnv) (pr : Char → Bool) (hpr : pr '\n' = false) (n : Node) (h : Simp env n) :
    ∃ t, QParses env (.expr 0) (queryToks pr n) t [] ∧ simplify t = some n := by
  match n, h with
  | .cond c, h =>
    obtain ⟨t, hp, hs⟩ := primary_printed env pr hpr (.cond c) h []
    refine ⟨t, ?_, hs⟩
    have : queryToks pr (.cond c) = nodeToks pr (.cond c) ++ [] := by simp [queryToks, nodeToks]
    rw [this]
    exact .expr hp (.stop trivial)
  | .comb a [], h => simp [Simp] at h
  | .comb a [_], h => simp [Simp] at h
  | .comb a (c1 :: c2 :: r), h =>
    simp only [Simp, SimpL] at h
    obtain ⟨t1, hp1, hs1⟩ := primary_printed env pr hpr c1 h.2.1 (sepTok a :: (joinToks pr a (c2 :: r) ++ []))
    obtain ⟨ts, hrel, hops⟩ := ops_printed env pr hpr a (c2 :: r) (by simp) h.2.2.2 t1 [] trivial
    have hall : ∀ c ∈ c2 :: r, sameOp a c = false := sameOp_of_SimpL env a (c2 :: r) h.2.2.2
    refine ⟨chain a t1 ts, ?_, ?_⟩
    · have hts : queryToks pr (.comb a (c1 :: c2 :: r)) = nodeToks pr c1 ++ (sepTok a :: (joinToks pr a (c2 :: r) ++ [])) := by
        simp [queryToks, joinToks]
      rw [hts]
      exact .expr hp1 hops
    · have := simplify_chain a ts (c2 :: r) t1 [c1] hrel hall (by simpa [flat] using hs1) (by simp)
        (by intro x hx; simp at hx; subst hx; exact h.2.2.1)
      simpa [flat] using this

end GoflowModel.ContactQL
