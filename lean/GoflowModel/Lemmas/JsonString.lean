import GoflowModel.Basic.JsonString
import GoflowModel.Lemmas.Quote
/-! `decode (encode s) = some s` for every string: one escaped character is read back as that
character, whatever follows. -/
namespace GoflowModel.JsonString
open GoflowModel.Quote

theorem decGo_raw (c : Char) (r : List Char) (h1 : c ≠ '"') (h2 : c ≠ '\\') (h3 : ¬ c.toNat < 0x20) :
    decGo none (c :: r) = consO c (decGo none r) := by
  rw [decGo.eq_def]
  split <;> simp_all [flush] <;> (intro h; omega)

theorem decGo_u (n : Nat) (r : List Char) (h : n < 65536) (hs : isHighSurrogate n = false) (hl : isLowSurrogate n = false) :
    decGo none ('\\' :: 'u' :: (hex4 n ++ r)) = consO (Char.ofNat n) (decGo none r) := by
  have := parseHex_hex4 n h
  simp only [hex4, hex2, List.cons_append, List.nil_append] at this
  simp only [hex4, hex2, List.cons_append, List.nil_append, decGo, this]
  simp [hs, hl]

/-- one escaped character is read back as that character -/
theorem decGo_escRune (c : Char) (r : List Char) : decGo none (escRune c ++ r) = consO c (decGo none r) := by
  unfold escRune
  split
  · rename_i h
    rcases h with h | h <;> subst h <;> simp only [List.cons_append, List.nil_append, decGo, flush]
  · rename_i hq
    have hq1 : c ≠ '"' := fun h => hq (Or.inl h)
    have hq2 : c ≠ '\\' := fun h => hq (Or.inr h)
    repeat' split
    all_goals first
      | (rename_i h; subst h; simp only [List.cons_append, List.nil_append, decGo, flush]; done)
      | skip
    · rename_i h
      have hlt : c.toNat < 65536 := by omega
      have hs : isHighSurrogate c.toNat = false := by simp [isHighSurrogate]; omega
      have hl : isLowSurrogate c.toNat = false := by simp [isLowSurrogate]; omega
      rw [List.cons_append, List.cons_append, decGo_u _ _ hlt hs hl, ofNat_toNat]
    · rename_i h
      have h3 : ¬ c.toNat < 0x20 := fun hh => h (Or.inl hh)
      simpa using decGo_raw c r hq1 hq2 h3

theorem decGo_escBody (s r : List Char) : decGo none (escBody s ++ r) = s.foldr consO (decGo none r) := by
  induction s with
  | nil => simp [escBody]
  | cons c s ih =>
    simp only [escBody, List.flatMap_cons, List.append_assoc, List.foldr_cons] at *
    rw [decGo_escRune, ih]

theorem foldr_consO (s : List Char) : s.foldr consO (some []) = some s := by
  induction s with
  | nil => rfl
  | cons c s ih => simp [List.foldr_cons, ih, consO]

theorem decGo_close : decGo none ['"'] = some [] := by simp only [decGo, flush]

theorem decodeStd_encode (s : List Char) : decodeStd (encode s) = some s := by
  simp only [encode, decodeStd]
  rw [decGo_escBody, decGo_close, foldr_consO]

/-! the same for `jsonparser` -/

theorem decJP_raw (c : Char) (r : List Char) (h1 : c ≠ '"') (h2 : c ≠ '\\') :
    decJP none (c :: r) = consO c (decJP none r) := by
  rw [decJP.eq_def]
  split <;> simp_all

theorem decJP_u (n : Nat) (r : List Char) (h : n < 65536) (hs : ¬ (0xD800 ≤ n ∧ n ≤ 0xDFFF)) :
    decJP none ('\\' :: 'u' :: (hex4 n ++ r)) = consO (Char.ofNat n) (decJP none r) := by
  have := parseHex_hex4 n h
  simp only [hex4, hex2, List.cons_append, List.nil_append] at this
  simp only [hex4, hex2, List.cons_append, List.nil_append, decJP, this]
  simp [hs]

theorem decJP_escRune (c : Char) (r : List Char) : decJP none (escRune c ++ r) = consO c (decJP none r) := by
  unfold escRune
  split
  · rename_i h
    rcases h with h | h <;> subst h <;> simp only [List.cons_append, List.nil_append, decJP]
  · rename_i hq
    have hq1 : c ≠ '"' := fun h => hq (Or.inl h)
    have hq2 : c ≠ '\\' := fun h => hq (Or.inr h)
    repeat' split
    all_goals first
      | (rename_i h; subst h; simp only [List.cons_append, List.nil_append, decJP]; done)
      | skip
    · rename_i h
      have hlt : c.toNat < 65536 := by omega
      have hs : ¬ (0xD800 ≤ c.toNat ∧ c.toNat ≤ 0xDFFF) := by omega
      rw [List.cons_append, List.cons_append, decJP_u _ _ hlt hs, ofNat_toNat]
    · simpa using decJP_raw c r hq1 hq2

theorem decJP_escBody (s r : List Char) : decJP none (escBody s ++ r) = s.foldr consO (decJP none r) := by
  induction s with
  | nil => simp [escBody]
  | cons c s ih =>
    simp only [escBody, List.flatMap_cons, List.append_assoc, List.foldr_cons] at *
    rw [decJP_escRune, ih]

theorem decJP_close : decJP none ['"'] = some [] := by simp only [decJP]

/-- **`decode (encode s) = some s`**: both readers read the written literal as the string -/
theorem decode_encode (s : List Char) : decode (encode s) = some s := by
  unfold decode
  rw [decodeStd_encode]
  simp only [encode]
  rw [decJP_escBody, decJP_close, foldr_consO]
  rfl

end GoflowModel.JsonString
