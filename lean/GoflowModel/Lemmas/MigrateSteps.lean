import GoflowModel.Migrate.Steps
/-!
Lemmas about the association-list maps of `Migrate/Steps.lean`, the view of a definition that carries
its identity and connectivity (`graph`), and what the traversal helpers leave alone.
-/
namespace GoflowModel.Migrate.Steps
open GoflowModel.Json GoflowModel.Migrate

theorem get_set_eq (k : Str) (v : J) : (o : JO) → get k (set k v o) = some v
  | .nil => by simp [set, get]
  | .cons k' v' rest => by
    have ih := get_set_eq k v rest
    simp only [set]
    split
    · simp [get]
    · rename_i h; simp [get, h, ih]

theorem get_set_ne (k k' : Str) (v : J) (h : k' ≠ k) : (o : JO) → get k (set k' v o) = get k o
  | .nil => by simp [set, get, h]
  | .cons k'' v'' rest => by
    have ih := get_set_ne k k' v h rest
    simp only [set]
    split
    · rename_i h2
      have : k'' ≠ k := by rw [h2]; exact h
      simp [get, h, this]
    · simp only [get]; split
      · rfl
      · exact ih

theorem get_del_eq (k : Str) : (o : JO) → get k (del k o) = none
  | .nil => by simp [del, get]
  | .cons k' v' rest => by
    have ih := get_del_eq k rest
    simp only [del]
    split
    · exact ih
    · rename_i h; simp [get, h, ih]

theorem get_del_ne (k k' : Str) (h : k' ≠ k) : (o : JO) → get k (del k' o) = get k o
  | .nil => by simp [del, get]
  | .cons k'' v'' rest => by
    have ih := get_del_ne k k' h rest
    simp only [del]
    split
    · rename_i h2
      have : k'' ≠ k := by rw [h2]; exact h
      simp [get, this, ih]
    · simp only [get]; split
      · rfl
      · exact ih

theorem set_set (k : Str) (v w : J) : (o : JO) → set k w (set k v o) = set k w o
  | .nil => by simp [set]
  | .cons k' v' rest => by
    have ih := set_set k v w rest
    simp only [set]
    split
    · simp [set]
    · rename_i h; simp [set, h, ih]

/-! ### the view that carries identity and connectivity -/

/-- of a node: its `uuid` and its `exits` (exit UUIDs and destinations are inside) -/
def nodeView : J → Option (Option J × Option J)
  | .obj n => some (get "uuid".toList n, get "exits".toList n)
  | _ => none

def viewL : JL → List (Option (Option J × Option J))
  | .nil => []
  | .cons x rest => nodeView x :: viewL rest

/-- of a definition: its `uuid`, and its nodes in their order, each with its `uuid` and `exits` -/
def graph (f : JO) : Option J × Option (List (Option (Option J × Option J))) :=
  (get "uuid".toList f,
   match get "nodes".toList f with
   | some (.arr l) => some (viewL l)
   | _ => none)

/-- a function on nodes that keeps `uuid` and `exits` -/
def KeepsNode {S : Type} (h : S → JO → S × JO) : Prop :=
  ∀ s o, get "uuid".toList (h s o).2 = get "uuid".toList o ∧ get "exits".toList (h s o).2 = get "exits".toList o

theorem viewL_mapObjs {S : Type} (h : S → JO → S × JO) (hk : KeepsNode h) :
    (s : S) → (l : JL) → viewL (mapObjs h s l).2 = viewL l
  | _, .nil => by simp [mapObjs, viewL]
  | s, .cons x rest => by
    cases x with
    | obj o =>
      have ih := viewL_mapObjs h hk (h s o).1 rest
      simp only [mapObjs, viewL, nodeView, ih, (hk s o).1, (hk s o).2]
    | null => have ih := viewL_mapObjs h hk s rest; simp only [mapObjs, viewL, ih]
    | bool b => have ih := viewL_mapObjs h hk s rest; simp only [mapObjs, viewL, ih]
    | num d => have ih := viewL_mapObjs h hk s rest; simp only [mapObjs, viewL, ih]
    | str t => have ih := viewL_mapObjs h hk s rest; simp only [mapObjs, viewL, ih]
    | arr a => have ih := viewL_mapObjs h hk s rest; simp only [mapObjs, viewL, ih]

/-- the traversal of one array member leaves every other member alone -/
theorem get_onKeyArr_ne {S : Type} (k k' : Str) (f : S → JO → S × JO) (s : S) (o : JO) (h : k ≠ k') :
    get k' (onKeyArr k f s o).2 = get k' o := by
  unfold onKeyArr
  split
  · simp only; exact get_set_ne k' k _ h o
  · rfl

theorem graph_set_other (k : Str) (v : J) (f : JO) (h1 : k ≠ "uuid".toList) (h2 : k ≠ "nodes".toList) :
    graph (set k v f) = graph f := by
  unfold graph
  rw [get_set_ne _ _ _ h1, get_set_ne _ _ _ h2]

/-- a traversal of the nodes by a function that keeps each node's `uuid` and `exits` keeps the graph -/
theorem graph_onNodes {S : Type} (h : S → JO → S × JO) (hk : KeepsNode h) (s : S) (f : JO) :
    graph (onKeyArr "nodes".toList h s f).2 = graph f := by
  unfold onKeyArr
  split
  · rename_i l hl
    simp only
    unfold graph
    rw [get_set_ne _ _ _ (by decide), get_set_eq, hl]
    simp only [viewL_mapObjs h hk s l]
  · rfl

/-- a traversal of a node's actions keeps the node's `uuid` and `exits`, whatever it does to the actions -/
theorem keepsNode_onActions {S : Type} (g : S → JO → S × JO) : KeepsNode (onKeyArr "actions".toList g) := by
  intro s o
  exact ⟨get_onKeyArr_ne _ _ g s o (by decide), get_onKeyArr_ne _ _ g s o (by decide)⟩

theorem graph_onActions {S : Type} (g : S → JO → S × JO) (s : S) (f : JO) : graph (onActions g s f).2 = graph f :=
  graph_onNodes _ (keepsNode_onActions g) s f

theorem graph_putLocalization (l : Option JO) (f : JO) : graph (putLocalization l f) = graph f := by
  unfold putLocalization
  cases l with
  | none => rfl
  | some l => exact graph_set_other _ _ _ (by decide) (by decide)

end GoflowModel.Migrate.Steps
