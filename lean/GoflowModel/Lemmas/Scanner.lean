import GoflowModel.Lemmas.LexText
/-! Lemmas about the template scanner model. -/
namespace GoflowModel.Scanner
open GoflowModel.LexText

theorem readLit_concat (l : List Char) (p : Bool) : (readLit l p).1 ++ (readLit l p).2 = l := by
  induction l generalizing p with
  | nil => simp [readLit]
  | cons c r ih =>
    simp only [readLit]
    split
    · simp
    · simp only [List.cons_append]; rw [ih]

theorem readLit_length (l : List Char) (p : Bool) : (readLit l p).2.length ≤ l.length := by
  have := congrArg List.length (readLit_concat l p)
  simp only [List.length_append] at this; omega

/-- The scanner's literal reader stops where the lexer's `TEXT` token definitively stops. -/
theorem readLit_definitive (b rest : List Char) (p : Bool)
    (hq : QEsc p b = true) (he : endsBS p b = false) :
    readLit (b ++ '"' :: rest) p = (b ++ ['"'], rest) := by
  induction b generalizing p with
  | nil =>
    simp only [endsBS] at he
    simp [readLit, he]
  | cons c b ih =>
    simp only [List.cons_append, readLit]
    simp only [QEsc] at hq
    simp only [endsBS] at he
    by_cases h : c = '"'
    · rw [if_pos h] at hq
      simp only [Bool.and_eq_true] at hq
      have : ¬ (c = '"' ∧ ¬ p = true) := by simp [hq.1]
      rw [if_neg this]
      subst h
      have hd : decide ('"' = '\\') = false := by decide
      rw [hd] at he ⊢
      rw [ih _ hq.2 he]
    · rw [if_neg h] at hq
      have : ¬ (c = '"' ∧ ¬ p = true) := by simp [h]
      rw [if_neg this, ih _ hq he]

/-- `scanExprAux` loses nothing: closed ⇒ `buf ++ ")" ++ rest = input`; with enough fuel and
not closed ⇒ everything was consumed into the buffer. -/
theorem scanExprAux_concat (fuel : Nat) (inp : List Char) (parens : Nat) (hf : inp.length < fuel) :
    let r := scanExprAux fuel inp parens
    (r.2.1 = true → r.1 ++ ')' :: r.2.2 = inp) ∧ (r.2.1 = false → r.1 = inp ∧ r.2.2 = []) ∧
    r.2.2.length ≤ inp.length := by
  induction fuel generalizing inp parens with
  | zero => omega
  | succ fuel ih =>
    cases inp with
    | nil => simp [scanExprAux]
    | cons c r =>
      simp only [scanExprAux]
      simp only [List.length_cons] at hf
      by_cases h1 : c = '"'
      · simp only [h1, if_true]
        have hl := readLit_length r false
        have hc := readLit_concat r false
        have := ih (readLit r false).2 parens (by omega)
        simp only at this
        refine ⟨fun h => ?_, fun h => ?_, ?_⟩
        · simp only [List.cons_append, List.append_assoc]; rw [this.1 h, hc]
        · simp only [(this.2.1 h).1, (this.2.1 h).2, hc, and_self]
        · simp only [List.length_cons]; omega
      · simp only [h1, if_false]
        by_cases h2 : c = '('
        · simp only [h2, if_true]
          have := ih r (parens + 1) (by omega)
          simp only at this
          refine ⟨fun h => ?_, fun h => ?_, ?_⟩
          · simp only [List.cons_append]; rw [this.1 h]
          · simp only [(this.2.1 h).1, (this.2.1 h).2, and_self]
          · simp only [List.length_cons]; omega
        · simp only [h2, if_false]
          by_cases h3 : c = ')'
          · simp only [h3, if_true]
            by_cases h4 : parens = 1
            · simp [h4]
            · simp only [h4, if_false]
              have := ih r (parens - 1) (by omega)
              simp only at this
              refine ⟨fun h => ?_, fun h => ?_, ?_⟩
              · simp only [List.cons_append]; rw [this.1 h]
              · simp only [(this.2.1 h).1, (this.2.1 h).2, and_self]
              · simp only [List.length_cons]; omega
          · simp only [h3, if_false]
            have := ih r parens (by omega)
            simp only at this
            refine ⟨fun h => ?_, fun h => ?_, ?_⟩
            · simp only [List.cons_append]; rw [this.1 h]
            · simp only [(this.2.1 h).1, (this.2.1 h).2, and_self]
            · simp only [List.length_cons]; omega

theorem scanExpr_concat (inp : List Char) :
    ((scanExpr inp).2.1 = true → (scanExpr inp).1 ++ ')' :: (scanExpr inp).2.2 = inp) ∧
    ((scanExpr inp).2.1 = false → (scanExpr inp).1 = inp ∧ (scanExpr inp).2.2 = []) ∧
    (scanExpr inp).2.2.length ≤ inp.length := by
  unfold scanExpr
  exact scanExprAux_concat (inp.length + 1) inp 1 (by omega)

theorem scanIdentAux_concat (nc : Char → Bool) (l : List Char) :
    (scanIdentAux nc l).1 ++ (scanIdentAux nc l).2 = l := by
  fun_induction scanIdentAux nc l <;> simp_all <;> assumption

theorem scanBodyAux_concat (nc : Char → Bool) (l : List Char) :
    (scanBodyAux nc false l).1 ++ (scanBodyAux nc false l).2 = l := by
  fun_induction scanBodyAux nc false l <;> simp_all <;> assumption

theorem scanBodyAux_length (nc : Char → Bool) (u : Bool) (l : List Char) :
    (scanBodyAux nc u l).2.length ≤ l.length := by
  fun_induction scanBodyAux nc u l <;> simp_all +zetaDelta <;> omega

theorem scanIdentAux_length (nc : Char → Bool) (l : List Char) :
    (scanIdentAux nc l).2.length ≤ l.length := by
  have := congrArg List.length (scanIdentAux_concat nc l)
  simp only [List.length_append] at this; omega

/-- One `Scan()` call loses nothing (with `@@` un-escaping off) and consumes at least one rune. -/
theorem scanOne_render (cfg : Cfg) (hu : cfg.unesc = false) (inp : List Char) (t : Token)
    (rest : List Char) (h : scanOne cfg inp = some (t, rest)) :
    t.render ++ rest = inp ∧ rest.length < inp.length := by
  unfold scanOne at h
  split at h
  · simp at h
  · rename_i r
    have hc := scanExpr_concat r
    by_cases hcl : (scanExpr r).2.1 = true
    · rw [if_pos hcl] at h
      simp only [Option.some.injEq, Prod.mk.injEq] at h
      obtain ⟨rfl, rfl⟩ := h
      refine ⟨?_, ?_⟩
      · simp only [Token.render, List.cons_append, List.append_assoc, List.nil_append]
        rw [hc.1 hcl]
      · simp only [List.length_cons]; omega
    · rw [if_neg hcl] at h
      simp only [Bool.not_eq_true] at hcl
      simp only [Option.some.injEq, Prod.mk.injEq] at h
      obtain ⟨rfl, rfl⟩ := h
      have := hc.2.1 hcl
      refine ⟨?_, ?_⟩
      · simp only [Token.render, this.1, this.2, List.append_nil]
      · simp [this.2]
  · rename_i d r hne
    by_cases hd : d ≠ '@' ∧ cfg.nc d = true
    · rw [if_pos hd] at h
      have hc := scanIdentAux_concat cfg.nc (d :: r)
      have hl := scanIdentAux_length cfg.nc (d :: r)
      simp only at h
      by_cases ha : cfg.allowed (cfg.lower (topLevelOf (scanIdentAux cfg.nc (d :: r)).1)) = true
      · rw [if_pos ha] at h
        simp only [Option.some.injEq, Prod.mk.injEq] at h
        obtain ⟨rfl, rfl⟩ := h
        refine ⟨?_, ?_⟩
        · simp only [Token.render, List.cons_append]; rw [hc]
        · simp only [List.length_cons] at hl ⊢; omega
      · rw [if_neg ha] at h
        simp only [Option.some.injEq, Prod.mk.injEq] at h
        obtain ⟨rfl, rfl⟩ := h
        refine ⟨?_, ?_⟩
        · simp only [Token.render, List.cons_append]; rw [hc]
        · simp only [List.length_cons] at hl ⊢; omega
    · rw [if_neg hd] at h
      simp only [Option.some.injEq, Prod.mk.injEq] at h
      obtain ⟨rfl, rfl⟩ := h
      rw [hu]
      have hc := scanBodyAux_concat cfg.nc ('@' :: d :: r)
      refine ⟨by simpa [Token.render] using hc, ?_⟩
      have hd1 : d ≠ '(' := hne
      have hl := scanBodyAux_length cfg.nc false r
      simp only [scanBodyAux, hd1, if_false, if_true]
      by_cases h2 : d = '@'
      · simp only [h2, if_true, List.length_cons]; omega
      · have : cfg.nc d = false := by
          cases hn : cfg.nc d with
          | false => rfl
          | true => exact absurd ⟨h2, hn⟩ hd
        simp [h2, this]; omega
  · rename_i inp' h1 h2 h3
    simp only [Option.some.injEq, Prod.mk.injEq] at h
    obtain ⟨rfl, rfl⟩ := h
    rw [hu]
    have hc := scanBodyAux_concat cfg.nc inp
    refine ⟨by simpa [Token.render] using hc, ?_⟩
    match inp, h1, h2, h3 with
    | [], h1, _, _ => exact absurd rfl h1
    | [c], _, _, _ => simp [scanBodyAux]
    | c :: d :: r, _, h2, h3 =>
      have hc1 : c ≠ '@' := by
        intro e; subst e
        exact h3 d r rfl
      have hl := scanBodyAux_length cfg.nc false (d :: r)
      simp only [scanBodyAux, hc1, if_false, List.length_cons] at hl ⊢
      omega

theorem scanOne_none (cfg : Cfg) (inp : List Char) (h : scanOne cfg inp = none) : inp = [] := by
  unfold scanOne at h
  split at h
  · rfl
  · simp only at h; split at h <;> simp at h
  · simp only at h
    split at h
    · split at h <;> simp at h
    · simp at h
  · simp at h

theorem scanAllAux_render (cfg : Cfg) (hu : cfg.unesc = false) (fuel : Nat) (inp : List Char)
    (hf : inp.length < fuel) : (scanAllAux cfg fuel inp).flatMap Token.render = inp := by
  induction fuel generalizing inp with
  | zero => omega
  | succ fuel ih =>
    simp only [scanAllAux]
    cases h : scanOne cfg inp with
    | none =>
      simp only [List.flatMap_nil]
      exact (scanOne_none cfg inp h).symm
    | some p =>
      obtain ⟨t, rest⟩ := p
      have := scanOne_render cfg hu inp t rest h
      simp only [List.flatMap_cons]
      rw [ih rest (by omega), this.1]

/-- an expression that is one definitively-ending literal is delimited by the scanner exactly -/
theorem scanExpr_literal (b tail : List Char) (hq : QEsc false b = true) (he : endsBS false b = false) :
    scanExpr ('"' :: (b ++ '"' :: ')' :: tail)) = ('"' :: (b ++ ['"']), true, tail) := by
  have key : ∀ f, scanExprAux (f + 2) ('"' :: (b ++ '"' :: ')' :: tail)) 1 = ('"' :: (b ++ ['"']), true, tail) := by
    intro f
    simp only [scanExprAux, if_true]
    rw [readLit_definitive b (')' :: tail) false hq he]
    simp [scanExprAux]
  unfold scanExpr
  have : ('"' :: (b ++ '"' :: ')' :: tail)).length + 1 = (b.length + tail.length + 2) + 2 := by
    simp only [List.length_cons, List.length_append]; omega
  rw [this, key]

end GoflowModel.Scanner
