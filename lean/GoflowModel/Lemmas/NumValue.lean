import GoflowModel.Props.C13
import GoflowModel.Excellent.Expr
/-! `numValue` (parse a number literal, render its value) is idempotent: a rendered number is its
own rendering. -/
namespace GoflowModel.Expr
open GoflowModel.Dec GoflowModel.Props.C13

theorem mem_takeWhile_true {p : Char → Bool} : ∀ (l : List Char) (c : Char), c ∈ l.takeWhile p → p c = true
  | [], _, h => by simp at h
  | x :: l, c, h => by
    simp only [List.takeWhile_cons] at h
    split at h
    · rename_i hx
      simp only [List.mem_cons] at h
      rcases h with h | h
      · subst h; exact hx
      · exact mem_takeWhile_true l c h
    · simp at h

theorem mem_dropWhile_mem {p : Char → Bool} : ∀ (l : List Char) (c : Char), c ∈ l.dropWhile p → c ∈ l
  | [], _, h => by simp at h
  | x :: l, c, h => by
    simp only [List.dropWhile_cons] at h
    split at h
    · exact List.mem_cons_of_mem _ (mem_dropWhile_mem l c h)
    · exact h

theorem parseBody_digits (s : List Char) (p : List Char × Int) (h : parseBody s = some p) :
    ∀ c ∈ p.1, isDigit c = true := by
  unfold parseBody at h
  have hi : ∀ c ∈ s.takeWhile isDigit, isDigit c = true := fun c hc => mem_takeWhile_true _ c hc
  simp only at h
  split at h
  · split at h
    · cases h
    · cases h; exact hi
  · rename_i f _
    split at h
    · rename_i hf
      cases h
      intro c hc
      simp only [List.mem_append] at hc
      rcases hc with hc | hc
      · exact hi c hc
      · have := hf.2
        rw [List.all_eq_true] at this
        exact this c hc
    · cases h
  · cases h

theorem parse_digits (s : List Char) (d : Dec) (h : Dec.parse s = some d) : ∀ c ∈ d.digits, isDigit c = true := by
  unfold Dec.parse at h
  split at h
  · rename_i r
    cases hp : parseBody r with
    | none => rw [hp] at h; cases h
    | some p =>
      rw [hp] at h
      simp only [Option.map_some, Option.some.injEq] at h
      subst h; exact parseBody_digits _ p hp
  · cases hp : parseBody s with
    | none => rw [hp] at h; cases h
    | some p =>
      rw [hp] at h
      simp only [Option.map_some, Option.some.injEq] at h
      subst h; exact parseBody_digits _ p hp

theorem trimLeading_digits (l : List Char) (h : ∀ c ∈ l, isDigit c = true) : ∀ c ∈ trimLeadingZeros l, isDigit c = true :=
  fun c hc => h c (mem_dropWhile_mem _ c hc)

theorem trimLeading_head (l : List Char) : (trimLeadingZeros l).head? ≠ some '0' := by
  unfold trimLeadingZeros
  induction l with
  | nil => simp
  | cons c l ih =>
    simp only [List.dropWhile_cons]
    split
    · exact ih
    · rename_i hc; simpa using hc

theorem trimLeading_idem (l : List Char) : trimLeadingZeros (trimLeadingZeros l) = trimLeadingZeros l :=
  dropWhile_zero_of_head_ne _ (trimLeading_head l)

/-- the number a literal denotes, with its coefficient as `big.Int` holds it -/
def canon (d : Dec) : Dec :=
  { d with digits := if trimLeadingZeros d.digits = [] then ['0'] else trimLeadingZeros d.digits }

theorem numValue_eq (s : List Char) : numValue s = match Dec.parse s with | some d => Dec.render (canon d) | none => s := by
  unfold numValue canon
  split <;> simp_all

theorem render_zero (neg : Bool) (e : Int) : Dec.render ⟨neg, ['0'], e⟩ = ['0'] := by
  have h := (num_roundtrip_zero e).1
  simp only [Dec.render] at h ⊢
  simpa [trimLeadingZeros] using h

theorem norm_canon_nz (d : Dec) (h : trimLeadingZeros d.digits ≠ []) : Dec.norm (canon d) = Dec.norm d := by
  simp only [canon, h, if_false, Dec.norm, trimLeading_idem]

/-- **idempotence** -/
theorem numValue_idem (s : List Char) : numValue (numValue s) = numValue s := by
  rw [numValue_eq s]
  cases hp : Dec.parse s with
  | none => simp only; rw [numValue_eq, hp]
  | some d =>
    simp only
    have hdig := parse_digits s d hp
    by_cases hz : trimLeadingZeros d.digits = []
    · -- zero
      have hc : canon d = ⟨d.neg, ['0'], d.exp⟩ := by simp [canon, hz]
      rw [hc, render_zero]
      rw [numValue_eq]
      have : Dec.parse ['0'] = some ⟨false, ['0'], 0⟩ := by decide
      rw [this]
      simp only
      have : canon ⟨false, ['0'], 0⟩ = ⟨false, ['0'], 0⟩ := by decide
      rw [this, render_zero]
    · have hnz : NZ (canon d).digits := by
        simp only [canon, hz, if_false]
        exact ⟨hz, trimLeading_digits _ hdig, trimLeading_head _⟩
      obtain ⟨p, hp1, hp2⟩ := num_roundtrip_nz (canon d).neg (canon d).digits (canon d).exp hnz
      have hcd : (⟨(canon d).neg, (canon d).digits, (canon d).exp⟩ : Dec) = canon d := rfl
      rw [hcd] at hp1 hp2
      rw [numValue_eq, hp1]
      simp only
      -- the re-parsed number is not zero either, and has the same normal form
      have hpd := parse_digits _ p hp1
      have hpz : trimLeadingZeros p.digits ≠ [] := by
        intro e
        have h1 : Dec.norm p = ⟨false, [], 0⟩ := by simp [Dec.norm, e]
        rw [h1] at hp2
        have h2 := norm_nz (canon d).neg (canon d).digits (canon d).exp hnz
        rw [hcd] at h2
        rw [h2] at hp2
        have := hnz.trim_ne
        simp only [Dec.mk.injEq] at hp2
        exact this hp2.2.1.symm
      have hnzp : NZ (canon p).digits := by
        simp only [canon, hpz, if_false]
        exact ⟨hpz, trimLeading_digits _ hpd, trimLeading_head _⟩
      apply render_canonical (canon p) (canon d) hnzp hnz
      rw [norm_canon_nz p hpz, hp2]

end GoflowModel.Expr
