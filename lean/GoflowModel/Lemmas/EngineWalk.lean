import GoflowModel.Lemmas.EngineParents
/-!
Every run's path is a walk in its flow's graph: a step's exit belongs to the step's node and
leads to the next step's node; only the last step may lack an exit.
-/
namespace GoflowModel.Engine

/-- the path is a walk through `nodes` -/
def walkFrom (nodes : List Node) : List Step → Bool
  | [] => true
  | [t] => match t.exit with
    | none => decide (t.node < nodes.length)
    | some e => ((nodes[t.node]?).map fun n => decide (e < n.exits.length)).getD false
  | t :: u :: r =>
    (match t.exit with
     | none => false
     | some e => ((nodes[t.node]?).bind fun n => n.exits[e]?) == some (some u.node)) &&
    walkFrom nodes (u :: r)

/-- `step.Leave(e)` on the last step -/
def setLast : List Step → Option Nat → List Step
  | [], _ => []
  | [t], e => [{ t with exit := e }]
  | t :: u :: r, e => t :: setLast (u :: r) e

theorem modify_last_eq_setLast (p : List Step) (e : Option Nat) :
    p.modify (p.length - 1) (fun t => { t with exit := e }) = setLast p e := by
  match p with
  | [] => rfl
  | [t] => rfl
  | t :: u :: r =>
    have : (t :: u :: r).length - 1 = (u :: r).length - 1 + 1 := by simp
    rw [this, List.modify_succ_cons, modify_last_eq_setLast (u :: r) e]
    rfl

theorem setLast_cons_head (u : Step) (r : List Step) (e : Option Nat) :
    ∃ u' r', setLast (u :: r) e = u' :: r' ∧ u'.node = u.node := by
  cases r with
  | nil => exact ⟨_, _, rfl, rfl⟩
  | cons v r => exact ⟨_, _, rfl, rfl⟩

theorem getLast?_setLast (p : List Step) (e : Option Nat) :
    (setLast p e).getLast? = p.getLast?.map fun t => { t with exit := e } := by
  match p with
  | [] => rfl
  | [t] => rfl
  | t :: u :: r =>
    have ih := getLast?_setLast (u :: r) e
    obtain ⟨u', r', h, _⟩ := setLast_cons_head u r e
    simp only [setLast]
    rw [h] at ih ⊢
    rw [List.getLast?_cons_cons, ih, List.getLast?_cons_cons]

theorem walk_setLast (nodes : List Node) (node : Node) (e' : Option Nat)
    (he : ∀ e, e' = some e → e < node.exits.length) :
    ∀ (p : List Step) (t : Step), walkFrom nodes p = true → p.getLast? = some t →
      nodes[t.node]? = some node → walkFrom nodes (setLast p e') = true
  | [], _, _, h, _ => by simp at h
  | [t0], t, _, h, hn => by
    simp only [List.getLast?_singleton, Option.some.injEq] at h
    subst h
    have hlt : t0.node < nodes.length := by
      rcases Nat.lt_or_ge t0.node nodes.length with h | h
      · exact h
      · rw [List.getElem?_eq_none h] at hn; cases hn
    cases e' with
    | none => simp [setLast, walkFrom, hlt]
    | some e => simp [setLast, walkFrom, hn, he e rfl]
  | t0 :: u :: r, t, hw, h, hn => by
    simp only [walkFrom, Bool.and_eq_true] at hw
    rw [List.getLast?_cons_cons] at h
    have ih := walk_setLast nodes node e' he (u :: r) t hw.2 h hn
    obtain ⟨u', r', hs, hu⟩ := setLast_cons_head u r e'
    simp only [setLast]
    rw [hs] at ih ⊢
    simp only [walkFrom, Bool.and_eq_true]
    rw [hu]
    exact ⟨hw.1, ih⟩

theorem walk_append (nodes : List Node) (d : Nat) (hd : d < nodes.length) :
    ∀ (p : List Step), walkFrom nodes p = true →
      (∀ t, p.getLast? = some t → ∃ e, t.exit = some e ∧ ((nodes[t.node]?).bind fun n => n.exits[e]?) = some (some d)) →
      walkFrom nodes (p ++ [⟨d, none⟩]) = true
  | [], _, _ => by simp [walkFrom, hd]
  | [t], _, h => by
    obtain ⟨e, he, hl⟩ := h t rfl
    simp [walkFrom, he, hl, hd]
  | t :: u :: r, hw, h => by
    simp only [walkFrom, Bool.and_eq_true] at hw
    have ih := walk_append nodes d hd (u :: r) hw.2 (by rw [List.getLast?_cons_cons] at h; exact h)
    simp only [List.cons_append] at ih ⊢
    simp only [walkFrom, Bool.and_eq_true]
    exact ⟨hw.1, ih⟩

/-! ### flows and paths of a session -/

def pf (s : Session) : List (Nat × List Step) := s.runs.map fun x => (x.flow, x.path)

theorem pf_modifyRun (s : Session) (r : Nat) (f : Run → Run) (g : Nat × List Step → Nat × List Step)
    (h : ∀ x, ((f x).flow, (f x).path) = g (x.flow, x.path)) :
    pf (modifyRun s r f) = (pf s).modify r g := by
  simp only [pf, modifyRun]
  induction s.runs generalizing r with
  | nil => simp
  | cons x l ih =>
    cases r with
    | zero => simp [List.modify_zero_cons, h]
    | succ r => simp [List.modify_succ_cons, ih]

theorem pf_modifyRun_same (s : Session) (r : Nat) (f : Run → Run)
    (h : ∀ x, (f x).flow = x.flow ∧ (f x).path = x.path) : pf (modifyRun s r f) = pf s := by
  rw [pf_modifyRun s r f id (fun x => by simp [(h x).1, (h x).2])]
  simp

theorem pf_exitRun (s : Session) (r : Nat) (st : RunStatus) : pf (exitRun s r st) = pf s :=
  pf_modifyRun_same _ _ _ (fun _ => ⟨rfl, rfl⟩)
theorem pf_setStatus (s : Session) (r : Nat) (st : RunStatus) : pf (setStatus s r st) = pf s :=
  pf_modifyRun_same _ _ _ (fun _ => ⟨rfl, rfl⟩)
theorem pf_logEvent (st : St) (r : Nat) (step : Option StepRef) (k : EvK) : pf (logEvent st r step k).s = pf st.s :=
  pf_modifyRun_same _ _ _ (fun _ => ⟨rfl, rfl⟩)
theorem pf_logEvents (st : St) (r : Nat) (step : Option StepRef) (ks : List EvK) :
    pf (logEvents st r step ks).s = pf st.s := by
  unfold logEvents
  induction ks generalizing st with
  | nil => rfl
  | cons k ks ih => simp only [List.foldl_cons]; rw [ih, pf_logEvent]
theorem pf_failRun (st : St) (r : Nat) (step : Option StepRef) : pf (failRun st r step).s = pf st.s := by
  unfold failRun; rw [pf_logEvent]; exact pf_exitRun _ _ _
theorem pf_exitAll (s : Session) : pf (exitAll s) = pf s := by
  simp only [pf, exitAll, List.map_map]; rfl
theorem pf_setSess (s : Session) (x : SessStatus) : pf { s with status := x } = pf s := rfl
theorem pf_setPushed (s : Session) (p : Option Pushed) : pf { s with pushed := p } = pf s := rfl
theorem pf_leave (s : Session) (r : Nat) (e : Option Nat) :
    pf (leave s r e) = (pf s).modify r fun x => (x.1, setLast x.2 e) :=
  pf_modifyRun _ _ _ _ (fun x => by simp [modify_last_eq_setLast])
theorem pf_createStep (st : St) (r d : Nat) :
    pf (createStep st r d).1.s = (pf st.s).modify r fun x => (x.1, x.2 ++ [⟨d, none⟩]) :=
  pf_modifyRun _ _ _ _ (fun _ => rfl)

/-- every run whose flow exists has a path that is a walk in that flow -/
def WalkAllL (a : Assets) (L : List (Nat × List Step)) : Prop :=
  ∀ (i fl : Nat) (p : List Step), L[i]? = some (fl, p) → ∀ f, getFlow a fl = some f → walkFrom f.nodes p = true

/-- the last step of run `c` has an exit leading to node `d` -/
def LastLink (a : Assets) (L : List (Nat × List Step)) (c d : Nat) : Prop :=
  ∃ fl p f t e, L[c]? = some (fl, p) ∧ getFlow a fl = some f ∧ p.getLast? = some t ∧ t.exit = some e ∧
    ((f.nodes[t.node]?).bind fun n => n.exits[e]?) = some (some d)

theorem WalkAllL_modify {a : Assets} {L : List (Nat × List Step)} (r : Nat) (g : List Step → List Step)
    (h : WalkAllL a L)
    (hg : ∀ fl p, L[r]? = some (fl, p) → ∀ f, getFlow a fl = some f → walkFrom f.nodes (g p) = true) :
    WalkAllL a (L.modify r fun x => (x.1, g x.2)) := by
  intro i fl p hi f hf
  rw [List.getElem?_modify] at hi
  cases hx : L[i]? with
  | none => rw [hx] at hi; cases hi
  | some x =>
    rw [hx] at hi
    simp only [Option.map_eq_map, Option.map_some, Option.some.injEq] at hi
    by_cases hri : r = i
    · subst hri
      simp only [if_true, Prod.mk.injEq] at hi
      obtain ⟨h1, h2⟩ := hi
      subst h1; subst h2
      exact hg x.1 x.2 hx f hf
    · simp only [hri, if_false] at hi
      subst hi
      exact h i _ _ hx f hf

/-! ### `pickNodeExit` -/

/-- run `r`'s flow exists and its last step is on `node` -/
def AtNode (a : Assets) (L : List (Nat × List Step)) (r : Nat) (node : Node) : Prop :=
  ∃ fl p f t, L[r]? = some (fl, p) ∧ getFlow a fl = some f ∧ p.getLast? = some t ∧ f.nodes[t.node]? = some node

def PickWalk (a : Assets) (r : Nat) : PickResult → Prop
  | .goErr st' => WalkAllL a (pf st'.s)
  | .ok st' e => WalkAllL a (pf st'.s) ∧ ∀ d, e = some (some d) → LastLink a (pf st'.s) r d
  | .tapeErr _ => True

theorem leave_walk {a : Assets} {s : Session} {r : Nat} {node : Node} (e' : Option Nat) (dest : Option Nat)
    (hw : WalkAllL a (pf s)) (hat : AtNode a (pf s) r node)
    (he : ∀ e, e' = some e → node.exits[e]? = some dest) :
    WalkAllL a (pf (leave s r e')) ∧ ∀ d e, e' = some e → dest = some d → LastLink a (pf (leave s r e')) r d := by
  obtain ⟨fl, p, f, t, h1, h2, h3, h4⟩ := hat
  rw [pf_leave]
  constructor
  · apply WalkAllL_modify r (fun p => setLast p e') hw
    intro fl' p' h1' f' hf'
    rw [h1] at h1'
    simp only [Option.some.injEq, Prod.mk.injEq] at h1'
    obtain ⟨e1, e2⟩ := h1'
    subst e1; subst e2
    rw [h2] at hf'
    simp only [Option.some.injEq] at hf'
    subst hf'
    apply walk_setLast f.nodes node e' _ p t (hw r fl p h1 f h2) h3 h4
    intro e hee
    have := he e hee
    rcases Nat.lt_or_ge e node.exits.length with hl | hl
    · exact hl
    · rw [List.getElem?_eq_none hl] at this; cases this
  · intro d e hee hd
    refine ⟨fl, setLast p e', f, { t with exit := e' }, e, ?_, h2, ?_, hee, ?_⟩
    · rw [List.getElem?_modify, h1]; simp
    · rw [getLast?_setLast, h3]; rfl
    · show ((f.nodes[t.node]?).bind fun n => n.exits[e]?) = some (some d)
      rw [h4]
      simp only [Option.bind_some]
      rw [he e hee, hd]

theorem pickNodeExit_walk (a : Assets) (st : St) (r : Nat) (node : Node) (step : StepRef) (evs : List EvK)
    (c : RouteChoice) (hw : WalkAllL a (pf st.s)) (hat : AtNode a (pf st.s) r node) :
    PickWalk a r (pickNodeExit st r node step evs c) := by
  have hl := pf_logEvents st r (some step) evs
  rw [← hl] at hw hat
  unfold pickNodeExit
  simp only
  generalize logEvents st r (some step) evs = st1 at hw hat
  split
  · split
    · exact hw
    · refine ⟨by rw [pf_failRun]; exact hw, fun d hd => by cases hd⟩
    · rename_i e
      split
      · rename_i dest hdest
        have := leave_walk (some e) dest hw hat (fun e0 he0 => by cases he0; exact hdest)
        refine ⟨this.1, fun d hd => ?_⟩
        simp only [Option.some.injEq] at hd
        exact this.2 d e rfl hd
      · trivial
    · trivial
  · split
    · rename_i e
      split
      · split
        · rename_i hen
          have := leave_walk (node := node) none none hw hat (fun e0 he0 => by cases he0)
          subst hen
          exact ⟨this.1, fun d hd => by cases hd⟩
        · trivial
      · rename_i dest rest hex
        split
        · rename_i hes
          subst hes
          have := leave_walk (some 0) dest hw hat (fun e0 he0 => by cases he0; rw [hex]; rfl)
          refine ⟨this.1, fun d hd => ?_⟩
          simp only [Option.some.injEq] at hd
          exact this.2 d 0 rfl hd
        · trivial
    · trivial

/-! ### `visitNode` -/

def VisitWalk (a : Assets) (r : Nat) : VisitResult → Prop
  | .goErr st' => WalkAllL a (pf st'.s)
  | .ok st' _ e => WalkAllL a (pf st'.s) ∧ ∀ d, e = some (some d) → LastLink a (pf st'.s) r d
  | .tapeErr _ => True

theorem visitTail_walk (a : Assets) (st : St) (r : Nat) (node : Node) (step : StepRef) (vc : VisitChoice)
    (hw : WalkAllL a (pf st.s)) (hat : AtNode a (pf st.s) r node) :
    VisitWalk a r (visitTail st r node step vc) := by
  unfold visitTail
  have hp := pickNodeExit_walk a st r node step [] vc.route hw hat
  have hn : ∀ d : Nat, (none : Option (Option Nat)) = some (some d) → LastLink a (pf st.s) r d := fun d hd => by cases hd
  split
  · exact hw
  · exact ⟨hw, hn⟩
  · refine ⟨?_, fun d hd => by cases hd⟩
    show WalkAllL a (pf (exitRun st.s r .failed)); rw [pf_exitRun]; exact hw
  · split
    · exact ⟨hw, hn⟩
    · split
      · refine ⟨?_, fun d hd => by cases hd⟩
        show WalkAllL a (pf (setStatus st.s r .waiting)); rw [pf_setStatus]; exact hw
      · split
        · rename_i heq; rw [heq] at hp; exact hp
        · rename_i heq; rw [heq] at hp; exact hp
        · trivial

/-- where the loop is about to go: the run is new, or its last step leads there -/
def DestOK (a : Assets) (L : List (Nat × List Step)) (c d : Nat) : Prop :=
  (∃ fl, L[c]? = some (fl, [])) ∨ LastLink a L c d

theorem visitNode_walk (a : Assets) (st : St) (r d : Nat) (node : Node) (vc : VisitChoice)
    (hw : WalkAllL a (pf st.s)) (hd : DestOK a (pf st.s) r d)
    (hnode : getNode a (((st.s.runs[r]?).map (·.flow)).getD 0) d = some node) (hr : r < st.s.runs.length) :
    VisitWalk a r (visitNode st r d node vc) := by
  unfold visitNode
  simp only
  -- the run, its flow and the node
  obtain ⟨x, hx⟩ : ∃ x, st.s.runs[r]? = some x := ⟨_, List.getElem?_eq_getElem hr⟩
  rw [hx] at hnode
  simp only [Option.map_some, Option.getD_some, getNode] at hnode
  cases hf : getFlow a x.flow with
  | none => rw [hf] at hnode; cases hnode
  | some f =>
    rw [hf] at hnode
    simp only [Option.bind_some] at hnode
    have hL : (pf st.s)[r]? = some (x.flow, x.path) := by simp [pf, hx]
    have hdlt : d < f.nodes.length := by
      rcases Nat.lt_or_ge d f.nodes.length with h | h
      · exact h
      · rw [List.getElem?_eq_none h] at hnode; cases hnode
    have h1 := pf_createStep st r d
    have hw1 : WalkAllL a (pf (createStep st r d).1.s) := by
      rw [h1]
      apply WalkAllL_modify r (fun p => p ++ [(⟨d, none⟩ : Step)]) hw
      intro fl p hfp f' hf'
      rw [hL] at hfp
      simp only [Option.some.injEq, Prod.mk.injEq] at hfp
      obtain ⟨e1, e2⟩ := hfp
      subst e1; subst e2
      rw [hf] at hf'
      simp only [Option.some.injEq] at hf'
      subst hf'
      apply walk_append f.nodes d hdlt x.path (hw r _ _ hL f hf)
      intro t ht
      rcases hd with ⟨fl, hfl⟩ | ⟨fl, p, f2, t2, e, g1, g2, g3, g4, g5⟩
      · rw [hL] at hfl
        simp only [Option.some.injEq, Prod.mk.injEq] at hfl
        rw [hfl.2] at ht; cases ht
      · rw [hL] at g1
        simp only [Option.some.injEq, Prod.mk.injEq] at g1
        obtain ⟨e1, e2⟩ := g1
        subst e1; subst e2
        rw [hf] at g2
        simp only [Option.some.injEq] at g2
        subst g2
        rw [ht] at g3
        simp only [Option.some.injEq] at g3
        subst g3
        exact ⟨e, g4, g5⟩
    have hat1 : AtNode a (pf (createStep st r d).1.s) r node := by
      rw [h1]
      refine ⟨x.flow, x.path ++ [⟨d, none⟩], f, ⟨d, none⟩, ?_, hf, by simp, hnode⟩
      rw [List.getElem?_modify, hL]; simp
    have h2 := pf_logEvents (createStep st r d).1 r (some (createStep st r d).2) vc.events
    have h3 : pf (setPushedOpt (logEvents (createStep st r d).1 r (some (createStep st r d).2) vc.events) vc.pushed).s
        = pf (createStep st r d).1.s := by
      unfold setPushedOpt
      split
      · show pf (logEvents _ _ _ _).s = _; rw [h2]
      · rw [h2]
    apply visitTail_walk
    · rw [h3]; exact hw1
    · rw [h3]; exact hat1

/-! ### `findResumeExit` -/

def FindWalk (a : Assets) (r : Nat) : FindResult → Prop
  | .err st' => WalkAllL a (pf st'.s)
  | .ok st' e => WalkAllL a (pf st'.s) ∧ ∀ d, e = some (some d) → LastLink a (pf st'.s) r d
  | .tapeErr _ => True

theorem atNode_of_pathLocation {a : Assets} {s : Session} {r : Nat} {step : StepRef} {node : Node}
    (h : pathLocation a s r = some (step, node)) : AtNode a (pf s) r node := by
  unfold pathLocation at h
  cases hx : s.runs[r]? with
  | none => simp [hx] at h
  | some x =>
    cases hl : x.path.getLast? with
    | none => simp [hx, hl] at h
    | some t =>
      cases hf : getFlow a x.flow with
      | none => simp [hx, hl, getNode, hf] at h
      | some f =>
        simp only [hx, hl, getNode, hf, Option.bind_some, Option.bind_eq_bind] at h
        cases hn : f.nodes[t.node]? with
        | none => simp [hn] at h
        | some n =>
          simp only [hn, Option.bind_some, Option.pure_def, Option.some.injEq, Prod.mk.injEq] at h
          refine ⟨x.flow, x.path, f, t, by simp [pf, hx], hf, hl, ?_⟩
          rw [hn, h.2]

theorem findResumeExit_walk (a : Assets) (orc : Oracle) (st : St) (r : Nat) (hw : WalkAllL a (pf st.s)) :
    FindWalk a r (findResumeExit a orc st r) := by
  unfold findResumeExit
  split
  · exact ⟨hw, fun d hd => by cases hd⟩
  · split
    · exact hw
    · rename_i step node hloc
      split
      · rename_i rr _
        have hp := pickNodeExit_walk a st r node step rr.events rr.route hw (atNode_of_pathLocation hloc)
        split
        · rename_i heq; rw [heq] at hp; exact hp
        · rename_i heq; rw [heq] at hp; exact hp
        · trivial
      · trivial


/-! ### the loop -/

structure LW (a : Assets) (l : Loop) : Prop where
  walk : WalkAllL a (pf l.st.s)
  link : ∀ c d, l.cur = some c → l.exit = some (some d) → LastLink a (pf l.st.s) c d

def ResWalk (a : Assets) : Result → Prop
  | .ok st => WalkAllL a (pf st.s)
  | .goErr st => WalkAllL a (pf st.s)
  | _ => True

def IterWalk (a : Assets) : Sum Loop Result → Prop
  | .inl l' => LW a l'
  | .inr r => ResWalk a r

theorem WalkAllL_append_new {a : Assets} {L : List (Nat × List Step)} (fl : Nat) (h : WalkAllL a L) :
    WalkAllL a (L ++ [(fl, [])]) := by
  intro i fl' p hi f hf
  rcases Nat.lt_or_ge i L.length with hl | hl
  · rw [List.getElem?_append_left hl] at hi; exact h i fl' p hi f hf
  · rw [List.getElem?_append_right hl] at hi
    cases hd : i - L.length with
    | zero =>
      rw [hd] at hi
      simp only [List.getElem?_cons_zero, Option.some.injEq, Prod.mk.injEq] at hi
      rw [← hi.2]; rfl
    | succ n => rw [hd] at hi; simp at hi

theorem pickDest_walk (a : Assets) (l : Loop) (hw : LW a l) :
    WalkAllL a (pf (pickDest a l).1.st.s) ∧
    ∀ c d, (pickDest a l).1.cur = some c → (pickDest a l).2 = some d → DestOK a (pf (pickDest a l).1.st.s) c d := by
  unfold pickDest
  split
  · rename_i p _
    simp only
    have key : ∀ s : Session, pf s = pf l.st.s →
        pf ({ s with runs := s.runs ++ [⟨p.flow, l.cur, .active, false, [], []⟩], pushed := none } : Session)
          = pf l.st.s ++ [(p.flow, [])] := by
      intro s hs
      simp only [pf, List.map_append, List.map_cons, List.map_nil] at hs ⊢
      rw [hs]
    have hlen : ∀ s : Session, pf s = pf l.st.s → s.runs.length = (pf l.st.s).length := by
      intro s hs; rw [← hs]; simp [pf]
    have hs0 : pf (if p.terminal then exitAll l.st.s else l.st.s) = pf l.st.s := by
      split
      · exact pf_exitAll _
      · rfl
    generalize (if p.terminal then exitAll l.st.s else l.st.s) = s0 at hs0
    constructor
    · rw [key s0 hs0]; exact WalkAllL_append_new _ hw.walk
    · intro c d hc _
      simp only [Option.some.injEq] at hc
      subst hc
      left
      refine ⟨p.flow, ?_⟩
      rw [key s0 hs0, hlen s0 hs0]
      simp
  · split
    · rename_i d' hex
      refine ⟨hw.walk, fun c d hc hd => Or.inr ?_⟩
      simp only at hc hd
      subst hd
      exact hw.link c d hc hex
    · exact ⟨hw.walk, fun c d _ hd => by cases hd⟩

theorem noDest_walk (a : Assets) (orc : Oracle) (l : Loop) (cur : Nat) (hw : WalkAllL a (pf l.st.s))
    (hex : l.exit = none) : IterWalk a (noDest a orc l cur) := by
  unfold noDest
  simp only
  generalize hs : (if ((l.st.s.runs[cur]?).map (·.exited)).getD true then l.st.s else exitRun l.st.s cur .completed) = s
  have hps : pf s = pf l.st.s := by
    subst hs; split
    · rfl
    · exact pf_exitRun _ _ _
  have hws : WalkAllL a (pf s) := by rw [hps]; exact hw
  have mk : ∀ (st' : St) (c : Option Nat) (stp : Option StepRef), WalkAllL a (pf st'.s) →
      LW a { st := st', cur := c, exit := none, step := stp, n := l.n } :=
    fun st' c stp h => ⟨h, fun _ _ _ he => by cases he⟩
  split
  · rename_i p _
    split
    · split
      · split
        · rw [hex]; exact mk _ _ _ (by rw [pf_failRun]; exact hws)
        · have hf := findResumeExit_walk a orc { l.st with s := s } p hws
          split
          · rename_i st' heq
            rw [heq] at hf; simp only [FindWalk] at hf
            exact mk _ _ _ (by rw [pf_failRun]; exact hf)
          · rename_i st' e heq
            rw [heq] at hf; simp only [FindWalk] at hf
            refine ⟨hf.1, fun c d hc he => ?_⟩
            simp only [Option.some.injEq] at hc
            subst hc
            exact hf.2 d he
          · trivial
      · rw [hex]; exact mk _ _ _ (by rw [pf_failRun]; exact hws)
    · exact hws
  · exact hws

theorem goDest_walk (a : Assets) (o : Opts) (orc : Oracle) (l : Loop) (cur d : Nat) (hw : WalkAllL a (pf l.st.s))
    (hex : l.exit = none) (hc : l.cur = some cur) (hcv : cur < l.st.s.runs.length) (hd : DestOK a (pf l.st.s) cur d) :
    IterWalk a (goDest a o orc l cur d) := by
  unfold goDest
  simp only
  split
  · rw [hex]
    exact ⟨by rw [pf_failRun]; exact hw, fun _ _ _ he => by cases he⟩
  · split
    · exact hw
    · rename_i node hnode
      split
      · rename_i vc _
        have hv := visitNode_walk a l.st cur d node vc hw hd hnode hcv
        split
        · rename_i st' heq
          rw [heq] at hv; exact hv
        · trivial
        · rename_i st' step e heq
          rw [heq] at hv; simp only [VisitWalk] at hv
          split
          · exact hv.1
          · refine ⟨hv.1, fun c d' hc' he => ?_⟩
            simp only at hc' he
            rw [hc] at hc'
            simp only [Option.some.injEq] at hc'
            subst hc'
            exact hv.2 d' he
      · trivial

theorem iter_walk (a : Assets) (o : Opts) (orc : Oracle) (l : Loop) (hi : LI l) (hp : LP l) (hw : LW a l) :
    IterWalk a (iter a o orc l) := by
  have hpd := pickDest_walk a l hw
  have hpi := pickDest_post a l hi
  have hpp := pickDest_parents a l hp
  unfold iter
  simp only
  split
  · trivial
  · rename_i cur hcur _
    exact noDest_walk a orc _ cur hpd.1 hpi.2.1
  · rename_i cur d hcur hd
    exact goDest_walk a o orc _ cur d hpd.1 hpi.2.1 hcur (hpp.curValid cur hcur) (hpd.2 cur d hcur hd)

theorem loop_walk (a : Assets) (o : Opts) (orc : Oracle) (fuel : Nat) (l : Loop) (hi : LI l) (hp : LP l) (hw : LW a l) :
    ResWalk a (loop a o orc fuel l) := by
  induction fuel generalizing l with
  | zero => simp [loop, ResWalk]
  | succ fuel ih =>
    simp only [loop]
    have h1 := iter_walk a o orc l hi hp hw
    have h2 := iter_post a o orc l hi
    have h3 := iter_parents a o orc l hp
    split
    · rename_i l' heq
      rw [heq] at h1 h2 h3
      exact ih l' h2 h3 h1
    · rename_i r heq
      rw [heq] at h1
      exact h1


/-! ### `start` and `Resume` -/

theorem start_walk (a : Assets) (o : Opts) (orc : Oracle) : ResWalk a (start a o orc) := by
  have h0 : WalkAllL a [] := fun i fl p hi => by simp at hi
  unfold start
  simp only
  split
  · exact h0
  · apply loop_walk
    · refine ⟨?_, ?_, by simp⟩
      · unfold SessOK; intro i x hx; simp [logSprintOnly, emptySession] at hx
      · simp [logSprintOnly, emptySession]
    · refine ⟨?_, by simp⟩
      simp [PBC, parents, logSprintOnly, emptySession]
    · exact ⟨h0, fun c d hc _ => by cases hc⟩

theorem pf_failSession (st : St) (w : Nat) : pf (failSession st w).s = pf st.s := by
  have key : ∀ l : List Run, ((l.map fun x : Run =>
      if x.status = .active ∨ x.status = .waiting then { x with status := .failed, exited := true } else x).map
        (fun x => (x.flow, x.path))) = l.map (fun x => (x.flow, x.path)) := by
    intro l
    rw [List.map_map]
    apply List.map_congr_left
    intro x _
    simp only [Function.comp]
    split <;> rfl
  have := pf_failRun st w none
  simp only [pf] at this ⊢
  simp only [failSession]
  rw [key]; exact this

theorem pf_baseApply (orc : Oracle) (st : St) (r : Nat) (step : StepRef) :
    pf (baseApply orc st r step).s = pf st.s := by
  unfold baseApply
  simp only
  split
  · rw [pf_setStatus, pf_logEvents]
  · rw [pf_logEvents]

theorem pf_applyResume (orc : Oracle) (st : St) (r : Nat) (step : StepRef) (k : ResumeKind) :
    pf (applyResume orc st r step k).s = pf st.s := by
  unfold applyResume
  simp only
  rw [pf_logEvents]
  cases k <;> simp only [pf_logEvent, pf_baseApply, pf_exitRun]

theorem resume_walk (a : Assets) (o : Opts) (orc : Oracle) (s : Session) (k : ResumeKind)
    (hok : SessOK s) (hpush : s.pushed = none) (hpbc : PBC s) (hw : WalkAllL a (pf s)) :
    ResWalk a (resume a o orc s k) := by
  unfold resume
  simp only
  have hfs : ∀ w, ResWalk a (.ok (failSession ⟨s, []⟩ w)) := by
    intro w; simp only [ResWalk]; rw [pf_failSession]; exact hw
  split
  · trivial
  · split
    · trivial
    · rename_i w hwr
      split
      · exact hfs w
      · split
        · exact hfs w
        · split
          · exact hfs w
          · rename_i step node _
            split
            · exact hfs w
            · split
              · trivial
              · have ha := applyResume_props orc ⟨{ s with status := .active }, []⟩ w step k hok
                have hap := parents_applyResume orc ⟨{ s with status := .active }, []⟩ w step k
                have haw := pf_applyResume orc ⟨{ s with status := .active }, []⟩ w step k
                generalize applyResume orc ⟨{ s with status := .active }, []⟩ w step k = st1 at ha hap haw
                have hw1 : WalkAllL a (pf st1.s) := by rw [haw]; exact hw
                have hf := findResumeExit_post a orc st1 w ha.1
                have hfw := findResumeExit_walk a orc st1 w hw1
                have hfp := findResumeExit_parents a orc st1 w
                split
                · rename_i st' heq
                  rw [heq] at hfw; simp only [FindWalk] at hfw
                  simp only [ResWalk]; rw [pf_failSession]; exact hfw
                · trivial
                · rename_i st' e heq
                  rw [heq] at hf hfw hfp
                  simp only [FindPost] at hf
                  simp only [FindWalk] at hfw
                  simp only [FindParents] at hfp
                  have e1 : parents st'.s = parents s := by rw [hfp, hap]; rfl
                  apply loop_walk
                  · refine ⟨hf.1, ?_, fun he => ⟨?_, w, rfl, hf.2.2.2 he⟩⟩
                    · rw [hf.2.1, ha.2.2]; simp
                    · rw [hf.2.2.1, ha.2.1]; exact hpush
                  · refine ⟨PBC_of_parents_eq e1 hpbc, ?_⟩
                    intro c hcc
                    simp only [Option.some.injEq] at hcc
                    subst hcc
                    have := congrArg List.length e1
                    simp only [parents, List.length_map] at this
                    have := waitingRun_lt s w hwr
                    show w < st'.s.runs.length
                    omega
                  · refine ⟨hfw.1, fun c d hc he => ?_⟩
                    simp only [Option.some.injEq] at hc
                    subst hc
                    exact hfw.2 d he

end GoflowModel.Engine
