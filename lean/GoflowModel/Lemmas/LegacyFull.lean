import GoflowModel.Excellent.LegacyFull
import GoflowModel.Lemmas.ExprParseShape
import GoflowModel.Lemmas.NumValue
import GoflowModel.Lemmas.PrintNewline
/-!
The migrated tree of any well-formed legacy expression is in the shape the new parser produces
(`Shape`), and — there being no anonymous functions in it — lets every operator follow that its
level allows (`edge = level`).  `Good` is the two together; it is preserved by `operand(·, level)`
(`wrapTo`), by template instantiation, by the parameter migrators and by each form of `+`/`-`.
-/
namespace GoflowModel.LegacyFull
open GoflowModel.Expr GoflowModel.Expr.Full

def Good (e : Expr) : Prop := Shape (.e e) ∧ edge e = level e

theorem level_le_14 (e : Expr) : level e ≤ 14 := by
  cases e <;> simp [level]
  exact Nat.le_trans (prec_le_12 _) (by omega)

theorem good_wrapTo {e : Expr} (h : Good e) (lvl : Nat) (hl : lvl ≤ 14) :
    Good (wrapTo lvl e) ∧ lvl ≤ level (wrapTo lvl e) := by
  unfold wrapTo
  split
  · exact ⟨⟨.paren h.1, by simp [edge, level]⟩, by simp [level]; exact hl⟩
  · exact ⟨h, by omega⟩

theorem good_null : Good .null := ⟨.null, by simp [edge, level]⟩
theorem good_bool (b : Bool) : Good (.bool b) := by
  cases b
  · exact ⟨.fls, by simp [edge, level]⟩
  · exact ⟨.tru, by simp [edge, level]⟩
theorem good_num {s : List Char} (h : numValue s = s) : Good (.num s) := ⟨.num h, by simp [edge, level]⟩
theorem good_text (hpr : Tables.isPrint '\n' = false) (v : List Char) : Good (.text v) :=
  ⟨.text (literal_requote hpr v), by simp [edge, level]⟩

theorem good_neg {e : Expr} (h : Good e) (hl : 13 ≤ level e) : Good (.neg e) :=
  ⟨.neg h.1 hl, by show min 13 (edge e) = 13; rw [h.2]; omega⟩

theorem good_bin {o : BinOp} {l r : Expr} (hl : Good l) (hr : Good r) (h1 : o.prec ≤ level l)
    (h2 : o.prec + 1 ≤ level r) : Good (.bin o l r) :=
  ⟨.bin hl.1 hr.1 (by rw [hl.2]; exact h1) h2, by show min o.prec (edge r) = o.prec; rw [hr.2]; omega⟩

def GoodAll (ps : List Expr) : Prop := ∀ e ∈ ps, Good e

theorem shape_toArgs : ∀ (ps : List Expr), GoodAll ps → Shape (.a (toArgs ps))
  | [], _ => .argsNil
  | e :: rest, h => .argsCons (h e (by simp)).1 (shape_toArgs rest (fun x hx => h x (by simp [hx])))

theorem good_call {n : List Char} (hn : lowerName n = n) {ps : List Expr} (h : GoodAll ps) :
    Good (.call (.ref n) (toArgs ps)) :=
  ⟨.call (.ref hn) (by simp [isAtom]) (shape_toArgs ps h), by simp [edge, level]⟩

theorem good_fnCall (name : String) (hn : lowerName name.toList = name.toList) {ps : List Expr} (h : GoodAll ps) :
    Good (fnCall name ps) := good_call hn h

theorem good_getP {ps : List Expr} (h : GoodAll ps) (i : Nat) : Good (getP ps i) := by
  unfold getP
  rw [List.getD_eq_getElem?_getD]
  cases hi : ps[i]? with
  | none => exact good_null
  | some e => exact h e (List.mem_of_getElem? hi)

/-! ### templates -/

mutual
  theorem good_inst (ps : List Expr) (h : GoodAll ps) :
      ∀ t : T, TOK t = true → Good (inst ps t) ∧ tlevel t ≤ level (inst ps t)
    | .hole i lvl, ht => by
      simp only [TOK, decide_eq_true_eq] at ht
      simpa only [inst, tlevel] using good_wrapTo (good_getP h i) lvl ht
    | .num s, ht => by
      simp only [TOK, beq_iff_eq] at ht
      exact ⟨good_num ht, by simp [inst, tlevel, level]⟩
    | .text v, _ => ⟨⟨.text (literal_requote Tables.isPrint_newline v), by simp [inst, edge, level]⟩, by simp [inst, tlevel, level]⟩
    | .bool b, _ => ⟨good_bool b, by simp [inst, tlevel, level]⟩
    | .null, _ => ⟨good_null, by simp [inst, tlevel, level]⟩
    | .neg e, ht => by
      simp only [TOK, Bool.and_eq_true, decide_eq_true_eq] at ht
      have ih := good_inst ps h e ht.1
      exact ⟨good_neg ih.1 (Nat.le_trans ht.2 ih.2), by simp [inst, tlevel, level]⟩
    | .bin o l r, ht => by
      simp only [TOK, Bool.and_eq_true, decide_eq_true_eq] at ht
      have il := good_inst ps h l ht.1.1.1
      have ir := good_inst ps h r ht.1.1.2
      exact ⟨good_bin il.1 ir.1 (Nat.le_trans ht.1.2 il.2) (Nat.le_trans ht.2 ir.2), by simp [inst, tlevel, level]⟩
    | .call n as, ht => by
      simp only [TOK, Bool.and_eq_true, beq_iff_eq] at ht
      exact ⟨⟨.call (.ref ht.1) (by simp [isAtom]) (shape_instArgs ps h as ht.2), by simp [inst, edge, level]⟩,
        by simp [inst, tlevel, level]⟩
  theorem shape_instArgs (ps : List Expr) (h : GoodAll ps) :
      ∀ as : TArgs, TOKArgs as = true → Shape (.a (instArgs ps as))
    | .nil, _ => .argsNil
    | .cons e rest, ht => by
      simp only [TOKArgs, Bool.and_eq_true] at ht
      exact .argsCons (good_inst ps h e ht.1).1.1 (shape_instArgs ps h rest ht.2)
end

/-! ### parameter migrators -/

theorem one_normal : numValue ['1'] = ['1'] := by decide
theorem sixty_normal : numValue ['6', '0'] = ['6', '0'] := by decide

theorem good_itoaE (n : Int) : Good (itoaE n) := by
  unfold itoaE
  split
  · exact good_neg (good_num (numValue_idem _)) (by simp [level])
  · exact good_num (numValue_idem _)

theorem good_decr {e : Expr} (h : Good e) : Good (decr e) := by
  unfold decr
  split
  · split
    · exact h
    · exact good_itoaE _
  · have w := good_wrapTo h 10 (by omega)
    exact good_bin w.1 (good_num one_normal) (by simpa [BinOp.prec] using w.2) (by simp [level, BinOp.prec])

theorem good_bySpaces (e : Expr) : Good (bySpaces e) := by
  unfold bySpaces
  split
  · exact good_text Tables.isPrint_newline _
  · exact good_null

theorem good_applyPM (pm : PM) {e : Expr} (h : Good e) : Good (applyPM pm e) := by
  cases pm
  · exact h
  · exact good_decr h
  · exact good_bySpaces e

theorem goodAll_zipPM : ∀ (pms : List PM) (es : List Expr), GoodAll es → GoodAll (zipPM pms es)
  | [], _, _ => by intro x hx; simp [zipPM] at hx
  | _ :: _, [], _ => by intro x hx; simp [zipPM] at hx
  | pm :: pms, e :: es, h => by
    intro x hx
    simp only [zipPM, List.mem_cons] at hx
    rcases hx with rfl | hx
    · exact good_applyPM pm (h e (by simp))
    · exact goodAll_zipPM pms es (fun y hy => h y (by simp [hy])) x hx

/-! ### joins -/

theorem good_joinRest (o : BinOp) : ∀ (rest : List Expr) (acc : Expr), Good acc → o.prec ≤ level acc → GoodAll rest →
    Good (joinRest o acc rest)
  | [], acc, ha, _, _ => by simpa [joinRest] using ha
  | q :: rest, acc, ha, hl, h => by
    have w := good_wrapTo (h q (by simp)) (o.prec + 1) (by have := prec_le_12 o; omega)
    simp only [joinRest]
    exact good_joinRest o rest _ (good_bin ha w.1 hl w.2) (by simp [level]) (fun y hy => h y (by simp [hy]))

/-! ### call migrators -/

theorem good_applyMig (m : Mig) (ps : List Expr) (h : GoodAll ps) (hm : MigOK m ps.length = true) :
    Good (applyMig m ps) := by
  cases m with
  | call n =>
    simp only [MigOK, beq_iff_eq] at hm
    exact good_call hm h
  | join o =>
    cases ps with
    | nil => simp [MigOK] at hm
    | cons p rest =>
      have w := good_wrapTo (h p (by simp)) o.prec (Nat.le_trans (prec_le_12 o) (by omega))
      exact good_joinRest o rest _ w.1 w.2 (fun y hy => h y (by simp [hy]))
  | tmpl t arity =>
    simp only [MigOK, Bool.and_eq_true] at hm
    exact (good_inst ps h t hm.1).1
  | params n pms minArgs defaults =>
    simp only [MigOK, Bool.and_eq_true, beq_iff_eq, decide_eq_true_eq, List.all_eq_true] at hm
    refine good_call hm.1.1.1.1 (goodAll_zipPM _ _ ?_)
    intro x hx
    simp only [List.mem_append, List.mem_map] at hx
    rcases hx with hx | ⟨d, hd, rfl⟩
    · exact h x hx
    · exact good_num (hm.2 d (List.mem_of_mem_drop hd))

/-! ### `+` and `-` -/

theorem goodAll_of (l : List Expr) (h : ∀ e ∈ l, Good e) : GoodAll l := h

theorem good_asMinutes {r : Expr} (h : Good r) : Good (asMinutes r) := by
  unfold asMinutes
  have c1 : Good (fnCall "format_time" [r, .text ['t', 't']]) := good_fnCall _ (by decide) (by
    intro x hx; simp only [List.mem_cons, List.not_mem_nil, or_false] at hx
    rcases hx with rfl | rfl
    · exact h
    · exact good_text Tables.isPrint_newline _)
  have c2 : Good (fnCall "format_time" [r, .text ['m']]) := good_fnCall _ (by decide) (by
    intro x hx; simp only [List.mem_cons, List.not_mem_nil, or_false] at hx
    rcases hx with rfl | rfl
    · exact h
    · exact good_text Tables.isPrint_newline _)
  have hc1 : level (fnCall "format_time" [r, .text ['t', 't']]) = 14 := by simp [fnCall, level]
  have hc2 : level (fnCall "format_time" [r, .text ['m']]) = 14 := by simp [fnCall, level]
  exact good_bin (good_bin c1 (good_num sixty_normal) (by rw [hc1]; simp [BinOp.prec]) (by simp [level, BinOp.prec])) c2
    (by simp [level, BinOp.prec]) (by rw [hc2]; simp [BinOp.prec])

theorem goodAll2 {a b : Expr} (ha : Good a) (hb : Good b) : GoodAll [a, b] := by
  intro x hx; simp only [List.mem_cons, List.not_mem_nil, or_false] at hx
  rcases hx with rfl | rfl
  · exact ha
  · exact hb

theorem goodAll3 {a b c : Expr} (ha : Good a) (hb : Good b) (hc : Good c) : GoodAll [a, b, c] := by
  intro x hx; simp only [List.mem_cons, List.not_mem_nil, or_false] at hx
  rcases hx with rfl | rfl | rfl
  · exact ha
  · exact hb
  · exact hc

theorem good_negWrap {r : Expr} (h : Good r) : Good (.neg (wrapTo 13 r)) := by
  have w := good_wrapTo h 13 (by omega)
  exact good_neg w.1 w.2

theorem good_legacyAdd (minus : Bool) {l r : Expr} (hl : Good l) (hr : Good r) : Good (legacyAdd minus l r) := by
  unfold legacyAdd
  split
  · exact good_fnCall _ (by decide) (goodAll2 hl (good_negWrap hr))
  · exact good_fnCall _ (by decide) (goodAll2 hl hr)

theorem good_daysAdd (minus : Bool) {l r : Expr} (hl : Good l) (hr : Good r) : Good (daysAdd minus l r) := by
  unfold daysAdd
  split
  · exact good_fnCall _ (by decide) (goodAll3 hl (good_negWrap hr) (good_text Tables.isPrint_newline _))
  · exact good_fnCall _ (by decide) (goodAll3 hl hr (good_text Tables.isPrint_newline _))

theorem good_arithE (k : Kind) (minus : Bool) {l r : Expr} (hl : Good l) (hr : Good r) : Good (arithE k minus l r) := by
  cases k with
  | datetimeNumber => exact good_daysAdd minus hl hr
  | dateNumber f =>
    cases f
    · exact good_daysAdd minus hl hr
    · exact good_fnCall _ (by decide) (by intro x hx; simp only [List.mem_cons, List.not_mem_nil, or_false] at hx; subst hx; exact good_daysAdd minus hl hr)
  | datetimeTime =>
    cases minus
    · exact good_fnCall _ (by decide) (goodAll3 hl (good_asMinutes hr) (good_text Tables.isPrint_newline _))
    · have p : Good (.paren (asMinutes r)) := ⟨.paren (good_asMinutes hr).1, by simp [edge, level]⟩
      exact good_fnCall _ (by decide) (goodAll3 hl (good_neg p (by simp [level])) (good_text Tables.isPrint_newline _))
  | replaceTime =>
    cases minus
    · exact good_fnCall _ (by decide) (goodAll2 hl hr)
    · exact good_legacyAdd true hl hr
  | fallback => exact good_legacyAdd minus hl hr

/-! ### the migration -/

theorem good_mkPath : ∀ (ls : List (List Char)) (c : Expr), Good c → isAtom c = true → Good (mkPath c ls)
  | [], c, h, _ => by simpa [mkPath] using h
  | l :: rest, c, h, ha => by
    simp only [mkPath]
    exact good_mkPath rest _ ⟨.dot h.1 ha, by simp [edge, level]⟩ (by simp [isAtom])

theorem migArgs_length : ∀ args : LFArgs, (migArgs args).length = args.length
  | .nil => by simp [migArgs, LFArgs.length]
  | .cons _ rest => by simp [migArgs, LFArgs.length, migArgs_length rest]

mutual
  theorem good_migF : ∀ l : LF, LWF l → Good (migF l)
    | .path r ls, h => by
      simp only [LWF] at h
      exact good_mkPath ls _ ⟨.ref h, by simp [edge, level]⟩ (by simp [isAtom])
    | .num s, h => by simp only [LWF] at h; exact good_num h
    | .str v, _ => good_text Tables.isPrint_newline v
    | .bool b, _ => good_bool b
    | .neg e, h => by simp only [LWF] at h; exact good_negWrap (good_migF e h)
    | .paren e, h => by
      simp only [LWF] at h
      exact ⟨.paren (good_migF e h).1, by simp [migF, edge, level]⟩
    | .bin o l r, h => by
      simp only [LWF] at h
      have a := good_wrapTo (good_migF l h.1) o.prec (Nat.le_trans (prec_le_12 o) (by omega))
      have b := good_wrapTo (good_migF r h.2) (o.prec + 1) (by have := prec_le_12 o; omega)
      exact good_bin a.1 b.1 a.2 b.2
    | .arith k minus l r, h => by
      simp only [LWF] at h
      exact good_arithE k minus (good_migF l h.1) (good_migF r h.2)
    | .fn m args, h => by
      simp only [LWF] at h
      exact good_applyMig m _ (goodAll_migArgs args h.2) (by rw [migArgs_length]; exact h.1)
  theorem goodAll_migArgs : ∀ args : LFArgs, LWFArgs args → GoodAll (migArgs args)
    | .nil, _ => by intro x hx; simp [migArgs] at hx
    | .cons e rest, h => by
      simp only [LWFArgs] at h
      intro x hx
      simp only [migArgs, List.mem_cons] at hx
      rcases hx with rfl | hx
      · exact good_migF e h.1
      · exact goodAll_migArgs rest h.2 x hx
end

/-! ### grouping: parentheses aside, the migrated tree is the denoted tree -/

theorem strip_wrapTo (lvl : Nat) (e : Expr) : strip (wrapTo lvl e) = strip e := by
  unfold wrapTo; split <;> simp [strip]

theorem strip_mkPath : ∀ (ls : List (List Char)) (c : Expr), strip (mkPath c ls) = mkPath (strip c) ls
  | [], c => by simp [mkPath]
  | l :: rest, c => by simp only [mkPath]; rw [strip_mkPath rest]; simp [strip]

theorem stripArgs_toArgs : ∀ ps : List Expr, stripArgs (toArgs ps) = toArgs (ps.map strip)
  | [] => by simp [toArgs, stripArgs]
  | e :: rest => by simp [toArgs, stripArgs, stripArgs_toArgs rest]

theorem strip_getP (ps : List Expr) (i : Nat) : strip (getP ps i) = getP (ps.map strip) i := by
  unfold getP
  rw [List.getD_eq_getElem?_getD, List.getD_eq_getElem?_getD, List.getElem?_map]
  cases ps[i]? <;> simp [strip]

mutual
  theorem strip_inst (ps : List Expr) : ∀ t : T, strip (inst ps t) = instS (ps.map strip) t
    | .hole i lvl => by simp only [inst, instS, strip_wrapTo, strip_getP]
    | .num _ => by simp [inst, instS, strip]
    | .text _ => by simp [inst, instS, strip]
    | .bool _ => by simp [inst, instS, strip]
    | .null => by simp [inst, instS, strip]
    | .neg e => by simp only [inst, instS, strip, strip_inst ps e]
    | .bin o l r => by simp only [inst, instS, strip, strip_inst ps l, strip_inst ps r]
    | .call n as => by simp only [inst, instS, strip, stripArgs_instArgs ps as]
  theorem stripArgs_instArgs (ps : List Expr) : ∀ as : TArgs, stripArgs (instArgs ps as) = instSArgs (ps.map strip) as
    | .nil => by simp [instArgs, instSArgs, stripArgs]
    | .cons e rest => by simp only [instArgs, instSArgs, stripArgs, strip_inst ps e, stripArgs_instArgs ps rest]
end

theorem strip_joinRest (o : BinOp) : ∀ (rest : List Expr) (acc : Expr),
    strip (joinRest o acc rest) = semJoinRest o (strip acc) (rest.map strip)
  | [], acc => by simp [joinRest, semJoinRest]
  | q :: rest, acc => by
    simp only [joinRest, List.map_cons, semJoinRest]
    rw [strip_joinRest o rest]; simp only [strip, strip_wrapTo]

theorem strip_bySpaces (e : Expr) : strip (bySpaces e) = bySpaces e := by
  unfold bySpaces; split <;> simp [strip]

theorem map_strip_zipPM : ∀ (pms : List PM) (ms : List Expr),
    (zipPM pms ms).map strip = zipPMS pms ms (ms.map strip)
  | [], _ => by simp [zipPM, zipPMS]
  | _ :: _, [] => by simp [zipPM, zipPMS]
  | pm :: pms, m :: ms => by
    simp only [zipPM, List.map_cons, zipPMS, map_strip_zipPM pms ms]
    cases pm <;> simp [applyPM, strip_bySpaces]

theorem strip_applyMig (m : Mig) (ps : List Expr) : strip (applyMig m ps) = applyMigS m ps (ps.map strip) := by
  cases m with
  | call n => simp only [applyMig, applyMigS, strip, stripArgs_toArgs]
  | join o =>
    cases ps with
    | nil => simp [applyMig, applyMigS, strip]
    | cons p rest => simp only [applyMig, applyMigS, List.map_cons, strip_joinRest, strip_wrapTo]
  | tmpl t arity => simp only [applyMig, applyMigS, strip_inst]
  | params n pms minArgs defaults =>
    have hd : ∀ l : List (List Char), l.map (strip ∘ Expr.num) = l.map Expr.num := by
      intro l; apply List.map_congr_left; intro d _; simp [strip]
    simp only [applyMig, applyMigS, strip, stripArgs_toArgs, map_strip_zipPM, List.map_append, List.map_map, hd, List.length_map]

theorem strip_fnCall (name : String) (ps : List Expr) : strip (fnCall name ps) = fnCall name (ps.map strip) := by
  simp only [fnCall, strip, stripArgs_toArgs]

theorem strip_arithE (k : Kind) (minus : Bool) (l r : Expr) :
    strip (arithE k minus l r) = arithS k minus (strip l) (strip r) := by
  cases k with
  | datetimeNumber => cases minus <;> simp [arithE, arithS, daysAdd, daysAddS, strip_fnCall, strip, strip_wrapTo]
  | dateNumber f => cases f <;> cases minus <;> simp [arithE, arithS, daysAdd, daysAddS, strip_fnCall, strip, strip_wrapTo]
  | datetimeTime => cases minus <;> simp [arithE, arithS, asMinutes, asMinutesS, strip_fnCall, strip]
  | replaceTime => cases minus <;> simp [arithE, arithS, legacyAdd, legacyAddS, strip_fnCall, strip, strip_wrapTo]
  | fallback => cases minus <;> simp [arithE, arithS, legacyAdd, legacyAddS, strip_fnCall, strip, strip_wrapTo]

mutual
  theorem strip_migF : ∀ l : LF, strip (migF l) = semF l
    | .path r ls => by simp only [migF, semF, strip_mkPath, strip]
    | .num _ => by simp [migF, semF, strip]
    | .str _ => by simp [migF, semF, strip]
    | .bool _ => by simp [migF, semF, strip]
    | .neg e => by simp only [migF, semF, strip, strip_wrapTo, strip_migF e]
    | .paren e => by simp only [migF, semF, strip, strip_migF e]
    | .bin o l r => by simp only [migF, semF, strip, strip_wrapTo, strip_migF l, strip_migF r]
    | .arith k minus l r => by simp only [migF, semF, strip_arithE, strip_migF l, strip_migF r]
    | .fn m args => by simp only [migF, semF, strip_applyMig, map_strip_migArgs args]
  theorem map_strip_migArgs : ∀ args : LFArgs, (migArgs args).map strip = semArgs args
    | .nil => by simp [migArgs, semArgs]
    | .cons e rest => by simp only [migArgs, semArgs, List.map_cons, strip_migF e, map_strip_migArgs rest]
end

end GoflowModel.LegacyFull
