import GoflowModel.Lemmas.EngineParents
/-!
Events: every event a run holds names (when it names one) a step of that run, and what a run
records during a call is a subsequence of that call's sprint events.
-/
namespace GoflowModel.Engine

/-- every event of every run that names a step names one of that run's own steps -/
def EvSteps (s : Session) : Prop :=
  ∀ (r : Nat) (x : Run), s.runs[r]? = some x → ∀ e ∈ x.events, ∀ sr, e.step = some sr →
    sr.run = r ∧ sr.idx < x.path.length

/-- relative to the events `b r` the runs started the call with: each run holds those followed by
a subsequence of the sprint's events -/
def SubInv (b : Nat → List Ev) (n0 : Nat) (st : St) : Prop :=
  n0 ≤ st.s.runs.length ∧ (∀ r, n0 ≤ r → b r = []) ∧
  ∀ (r : Nat) (x : Run), st.s.runs[r]? = some x → ∃ n, x.events = b r ++ n ∧ List.Sublist n (st.sp.map (·.ev))

/-- `step` names a step of run `r` -/
def StepOf (s : Session) (r : Nat) (step : Option StepRef) : Prop :=
  ∀ sr, step = some sr → sr.run = r ∧ ∀ x, s.runs[r]? = some x → sr.idx < x.path.length

theorem modifyRun_length (s : Session) (r : Nat) (f : Run → Run) : (modifyRun s r f).runs.length = s.runs.length := by
  simp [modifyRun]

theorem EvSteps_modifyRun {s : Session} {r : Nat} {f : Run → Run} (h : EvSteps s)
    (hf : ∀ x, s.runs[r]? = some x → (∀ e ∈ (f x).events, e ∈ x.events ∨ ∀ sr, e.step = some sr → sr.run = r ∧ sr.idx < (f x).path.length) ∧
      x.path.length ≤ (f x).path.length) : EvSteps (modifyRun s r f) := by
  intro i x hx e he sr hsr
  rw [getElem?_modifyRun] at hx
  cases hy : s.runs[i]? with
  | none => rw [hy] at hx; cases hx
  | some y =>
    rw [hy] at hx
    simp only [Option.map_some, Option.some.injEq] at hx
    by_cases hri : r = i
    · subst hri
      simp only [if_true] at hx
      subst hx
      rcases (hf y hy).1 e he with h1 | h1
      · have := h r y hy e h1 sr hsr
        exact ⟨this.1, Nat.lt_of_lt_of_le this.2 (hf y hy).2⟩
      · exact h1 sr hsr
    · simp only [hri, if_false] at hx
      subst hx
      exact h i _ hy e he sr hsr

theorem EvSteps_same {s : Session} {r : Nat} {f : Run → Run} (h : EvSteps s)
    (hf : ∀ x, (f x).events = x.events ∧ x.path.length ≤ (f x).path.length) : EvSteps (modifyRun s r f) :=
  EvSteps_modifyRun h (fun x _ => ⟨fun e he => Or.inl (by rw [(hf x).1] at he; exact he), (hf x).2⟩)

theorem EvSteps_exitRun {s : Session} (r : Nat) (st : RunStatus) (h : EvSteps s) : EvSteps (exitRun s r st) :=
  EvSteps_same h (fun _ => ⟨rfl, Nat.le_refl _⟩)
theorem EvSteps_setStatus {s : Session} (r : Nat) (st : RunStatus) (h : EvSteps s) : EvSteps (setStatus s r st) :=
  EvSteps_same h (fun _ => ⟨rfl, Nat.le_refl _⟩)
theorem EvSteps_leave {s : Session} (r : Nat) (e : Option Nat) (h : EvSteps s) : EvSteps (leave s r e) :=
  EvSteps_same h (fun _ => ⟨rfl, by simp⟩)

theorem EvSteps_logEvent {st : St} (r : Nat) (step : Option StepRef) (k : EvK) (h : EvSteps st.s)
    (hs : StepOf st.s r step) : EvSteps (logEvent st r step k).s := by
  apply EvSteps_modifyRun h
  intro x hx
  refine ⟨fun e he => ?_, Nat.le_refl _⟩
  simp only [List.mem_append, List.mem_singleton] at he
  rcases he with he | he
  · exact Or.inl he
  · right
    intro sr hsr
    subst he
    simp only at hsr
    exact ⟨(hs sr hsr).1, (hs sr hsr).2 x hx⟩

/-- the lengths of the paths -/
def pls (s : Session) : List Nat := s.runs.map (·.path.length)

theorem StepOf_of_pls {s s' : Session} {r : Nat} {step : Option StepRef} (h : StepOf s r step)
    (hp : ∀ x x', s.runs[r]? = some x → s'.runs[r]? = some x' → x.path.length ≤ x'.path.length)
    (hd : ∀ x', s'.runs[r]? = some x' → ∃ x, s.runs[r]? = some x) : StepOf s' r step := by
  intro sr hsr
  refine ⟨(h sr hsr).1, fun x' hx' => ?_⟩
  obtain ⟨x, hx⟩ := hd x' hx'
  exact Nat.lt_of_lt_of_le ((h sr hsr).2 x hx) (hp x x' hx hx')

theorem StepOf_modifyRun {s : Session} {r r' : Nat} {step : Option StepRef} {f : Run → Run} (h : StepOf s r step)
    (hf : ∀ x, x.path.length ≤ (f x).path.length) : StepOf (modifyRun s r' f) r step := by
  apply StepOf_of_pls h
  · intro x x' hx hx'
    rw [getElem?_modifyRun, hx] at hx'
    simp only [Option.map_some, Option.some.injEq] at hx'
    subst hx'
    split
    · exact hf x
    · exact Nat.le_refl _
  · intro x' hx'
    rw [getElem?_modifyRun] at hx'
    cases hy : s.runs[r]? with
    | none => rw [hy] at hx'; cases hx'
    | some y => exact ⟨y, rfl⟩

theorem StepOf_logEvent {st : St} {r r' : Nat} {step step' : Option StepRef} (k : EvK) (h : StepOf st.s r step) :
    StepOf (logEvent st r' step' k).s r step :=
  StepOf_modifyRun h (fun _ => Nat.le_refl _)

theorem EvSteps_logEvents {st : St} (r : Nat) (step : Option StepRef) (ks : List EvK) (h : EvSteps st.s)
    (hs : StepOf st.s r step) : EvSteps (logEvents st r step ks).s ∧ StepOf (logEvents st r step ks).s r step := by
  unfold logEvents
  induction ks generalizing st with
  | nil => exact ⟨h, hs⟩
  | cons k ks ih =>
    simp only [List.foldl_cons]
    exact ih (EvSteps_logEvent r step k h hs) (StepOf_logEvent k hs)

theorem EvSteps_failRun {st : St} (r : Nat) (step : Option StepRef) (h : EvSteps st.s)
    (hs : StepOf st.s r step) : EvSteps (failRun st r step).s := by
  unfold failRun
  apply EvSteps_logEvent
  · exact EvSteps_exitRun _ _ h
  · exact StepOf_modifyRun hs (fun _ => Nat.le_refl _)

theorem StepOf_none (s : Session) (r : Nat) : StepOf s r none := fun _ h => by cases h

/-! ### sprint subsequence -/

theorem SubInv_modifyRun {b : Nat → List Ev} {n0 : Nat} {s : Session} {sp : List SprintEv} {r : Nat} {f : Run → Run}
    (h : SubInv b n0 ⟨s, sp⟩) (hf : ∀ x, (f x).events = x.events) : SubInv b n0 ⟨modifyRun s r f, sp⟩ := by
  refine ⟨by rw [modifyRun_length]; exact h.1, h.2.1, ?_⟩
  intro i x hx
  rw [getElem?_modifyRun] at hx
  cases hy : s.runs[i]? with
  | none => rw [hy] at hx; cases hx
  | some y =>
    rw [hy] at hx
    simp only [Option.map_some, Option.some.injEq] at hx
    obtain ⟨n, hn1, hn2⟩ := h.2.2 i y hy
    refine ⟨n, ?_, hn2⟩
    subst hx
    split
    · rw [hf]; exact hn1
    · exact hn1

theorem SubInv_logEvent {b : Nat → List Ev} {n0 : Nat} {st : St} (r : Nat) (step : Option StepRef) (k : EvK)
    (h : SubInv b n0 st) : SubInv b n0 (logEvent st r step k) := by
  refine ⟨by simp only [logEvent]; rw [modifyRun_length]; exact h.1, h.2.1, ?_⟩
  intro i x hx
  simp only [logEvent] at hx ⊢
  rw [getElem?_modifyRun] at hx
  cases hy : st.s.runs[i]? with
  | none => rw [hy] at hx; cases hx
  | some y =>
    rw [hy] at hx
    simp only [Option.map_some, Option.some.injEq] at hx
    obtain ⟨n, hn1, hn2⟩ := h.2.2 i y hy
    subst hx
    simp only [List.map_append, List.map_cons, List.map_nil]
    split
    · refine ⟨n ++ [⟨k.kind, k.isWait, step⟩], by simp [hn1], ?_⟩
      exact List.Sublist.append hn2 (List.Sublist.refl _)
    · exact ⟨n, hn1, List.Sublist.trans hn2 (List.sublist_append_left _ _)⟩

theorem SubInv_logEvents {b : Nat → List Ev} {n0 : Nat} {st : St} (r : Nat) (step : Option StepRef) (ks : List EvK)
    (h : SubInv b n0 st) : SubInv b n0 (logEvents st r step ks) := by
  unfold logEvents
  induction ks generalizing st with
  | nil => exact h
  | cons k ks ih => simp only [List.foldl_cons]; exact ih (SubInv_logEvent r step k h)

theorem SubInv_exitRun {b : Nat → List Ev} {n0 : Nat} {st : St} (r : Nat) (x : RunStatus) (h : SubInv b n0 st) :
    SubInv b n0 { st with s := exitRun st.s r x } := SubInv_modifyRun h (fun _ => rfl)
theorem SubInv_setStatus {b : Nat → List Ev} {n0 : Nat} {st : St} (r : Nat) (x : RunStatus) (h : SubInv b n0 st) :
    SubInv b n0 { st with s := setStatus st.s r x } := SubInv_modifyRun h (fun _ => rfl)
theorem SubInv_leave {b : Nat → List Ev} {n0 : Nat} {st : St} (r : Nat) (e : Option Nat) (h : SubInv b n0 st) :
    SubInv b n0 { st with s := leave st.s r e } := SubInv_modifyRun h (fun _ => rfl)
theorem SubInv_failRun {b : Nat → List Ev} {n0 : Nat} {st : St} (r : Nat) (step : Option StepRef) (h : SubInv b n0 st) :
    SubInv b n0 (failRun st r step) := by
  unfold failRun; exact SubInv_logEvent _ _ _ (SubInv_exitRun _ _ h)

/-- only the runs' events and the sprint matter -/
theorem SubInv_congr {b : Nat → List Ev} {n0 : Nat} {st st' : St} (h : SubInv b n0 st)
    (he : st'.s.runs.map (·.events) = st.s.runs.map (·.events)) (hsp : st'.sp = st.sp) : SubInv b n0 st' := by
  have hlen : st'.s.runs.length = st.s.runs.length := by
    have := congrArg List.length he; simpa using this
  refine ⟨by rw [hlen]; exact h.1, h.2.1, ?_⟩
  intro i x hx
  have h1 : (st'.s.runs.map (·.events))[i]? = some x.events := by simp [hx]
  rw [he] at h1
  simp only [List.getElem?_map] at h1
  cases hy : st.s.runs[i]? with
  | none => simp [hy] at h1
  | some y =>
    simp only [hy, Option.map_some, Option.some.injEq] at h1
    obtain ⟨n, hn1, hn2⟩ := h.2.2 i y hy
    exact ⟨n, by rw [← h1]; exact hn1, by rw [hsp]; exact hn2⟩

theorem EvSteps_congr {s s' : Session}
    (he : s'.runs.map (fun x => (x.events, x.path.length)) = s.runs.map (fun x => (x.events, x.path.length)))
    (h : EvSteps s) : EvSteps s' := by
  intro i x hx e hee sr hsr
  have h1 : (s'.runs.map (fun x => (x.events, x.path.length)))[i]? = some (x.events, x.path.length) := by simp [hx]
  rw [he] at h1
  simp only [List.getElem?_map] at h1
  cases hy : s.runs[i]? with
  | none => simp [hy] at h1
  | some y =>
    simp only [hy, Option.map_some, Option.some.injEq, Prod.mk.injEq] at h1
    have := h i y hy e (by rw [h1.1]; exact hee) sr hsr
    rw [h1.2] at this; exact this


/-! ### the invariant through `pickNodeExit`, `visitNode`, `findResumeExit` -/

def EI (b : Nat → List Ev) (n0 : Nat) (st : St) : Prop := EvSteps st.s ∧ SubInv b n0 st

/-- steps of run `r` stay steps of run `r` -/
def Keep (s s' : Session) (r : Nat) : Prop := ∀ stp, StepOf s r stp → StepOf s' r stp

theorem Keep.refl (s : Session) (r : Nat) : Keep s s r := fun _ h => h
theorem Keep.trans {s s' s'' : Session} {r : Nat} (h1 : Keep s s' r) (h2 : Keep s' s'' r) : Keep s s'' r :=
  fun stp h => h2 stp (h1 stp h)
theorem Keep_modifyRun (s : Session) (r r' : Nat) (f : Run → Run) (hf : ∀ x, x.path.length ≤ (f x).path.length) :
    Keep s (modifyRun s r' f) r := fun _ h => StepOf_modifyRun h hf
theorem Keep_logEvent (st : St) (r r' : Nat) (step : Option StepRef) (k : EvK) : Keep st.s (logEvent st r' step k).s r :=
  Keep_modifyRun _ _ _ _ (fun _ => Nat.le_refl _)
theorem Keep_logEvents (st : St) (r r' : Nat) (step : Option StepRef) (ks : List EvK) :
    Keep st.s (logEvents st r' step ks).s r := by
  unfold logEvents
  induction ks generalizing st with
  | nil => exact Keep.refl _ _
  | cons k ks ih => simp only [List.foldl_cons]; exact (Keep_logEvent st r r' step k).trans (ih _)
theorem Keep_exitRun (s : Session) (r r' : Nat) (x : RunStatus) : Keep s (exitRun s r' x) r :=
  Keep_modifyRun _ _ _ _ (fun _ => Nat.le_refl _)
theorem Keep_setStatus (s : Session) (r r' : Nat) (x : RunStatus) : Keep s (setStatus s r' x) r :=
  Keep_modifyRun _ _ _ _ (fun _ => Nat.le_refl _)
theorem Keep_leave (s : Session) (r r' : Nat) (e : Option Nat) : Keep s (leave s r' e) r :=
  Keep_modifyRun _ _ _ _ (fun _ => by simp)
theorem Keep_failRun (st : St) (r r' : Nat) (step : Option StepRef) : Keep st.s (failRun st r' step).s r := by
  unfold failRun
  exact (Keep_exitRun st.s r r' .failed).trans (Keep_logEvent { st with s := exitRun st.s r' .failed } r r' step _)
theorem Keep_runs {s s' : Session} {r : Nat} (h : s'.runs = s.runs) : Keep s s' r := by
  intro stp hs sr hsr
  refine ⟨(hs sr hsr).1, fun x hx => (hs sr hsr).2 x (by rw [← h]; exact hx)⟩

theorem EI_failRun {b : Nat → List Ev} {n0 : Nat} {st : St} (r : Nat) (step : Option StepRef) (h : EI b n0 st)
    (hs : StepOf st.s r step) : EI b n0 (failRun st r step) :=
  ⟨EvSteps_failRun r step h.1 hs, SubInv_failRun r step h.2⟩

theorem EI_runs {b : Nat → List Ev} {n0 : Nat} {st st' : St} (h : EI b n0 st) (hr : st'.s.runs = st.s.runs)
    (hsp : st'.sp = st.sp) : EI b n0 st' :=
  ⟨EvSteps_congr (by rw [hr]) h.1, SubInv_congr h.2 (by rw [hr]) hsp⟩

def PickEv (b : Nat → List Ev) (n0 : Nat) (s : Session) (r : Nat) : PickResult → Prop
  | .goErr st' => EI b n0 st'
  | .ok st' _ => EI b n0 st' ∧ Keep s st'.s r
  | .tapeErr _ => True

theorem pickNodeExit_ev {b : Nat → List Ev} {n0 : Nat} (st : St) (r : Nat) (node : Node) (step : StepRef)
    (evs : List EvK) (c : RouteChoice) (h : EI b n0 st) (hs : StepOf st.s r (some step)) :
    PickEv b n0 st.s r (pickNodeExit st r node step evs c) := by
  have h1 := EvSteps_logEvents r (some step) evs h.1 hs
  have h2 := SubInv_logEvents r (some step) evs h.2
  have h3 := Keep_logEvents st r r (some step) evs
  unfold pickNodeExit
  simp only
  generalize logEvents st r (some step) evs = st1 at h1 h2 h3
  have hl : ∀ e, EI b n0 { st1 with s := leave st1.s r e } ∧ Keep st.s (leave st1.s r e) r :=
    fun e => ⟨⟨EvSteps_leave r e h1.1, SubInv_leave r e h2⟩, h3.trans (Keep_leave _ _ _ _)⟩
  split
  · split
    · exact ⟨h1.1, h2⟩
    · exact ⟨EI_failRun r _ ⟨h1.1, h2⟩ h1.2, h3.trans (Keep_failRun _ _ _ _)⟩
    · split
      · exact hl _
      · trivial
    · trivial
  · split
    · split
      · split
        · exact hl _
        · trivial
      · split
        · exact hl _
        · trivial
    · trivial

def VisitEv (b : Nat → List Ev) (n0 : Nat) (r : Nat) : VisitResult → Prop
  | .goErr st' => EI b n0 st'
  | .ok st' step _ => EI b n0 st' ∧ StepOf st'.s r (some step)
  | .tapeErr _ => True

theorem visitTail_ev {b : Nat → List Ev} {n0 : Nat} (st : St) (r : Nat) (node : Node) (step : StepRef)
    (vc : VisitChoice) (h : EI b n0 st) (hs : StepOf st.s r (some step)) :
    VisitEv b n0 r (visitTail st r node step vc) := by
  unfold visitTail
  have hp := pickNodeExit_ev st r node step [] vc.route h hs
  split
  · exact h
  · exact ⟨h, hs⟩
  · refine ⟨?_, ?_⟩
    · have : EI b n0 { st with s := exitRun st.s r .failed } := ⟨EvSteps_exitRun _ _ h.1, SubInv_exitRun _ _ h.2⟩
      exact EI_runs this rfl rfl
    · exact Keep_runs (s := exitRun st.s r .failed) rfl _ (Keep_exitRun _ _ _ _ _ hs)
  · split
    · exact ⟨h, hs⟩
    · split
      · refine ⟨?_, ?_⟩
        · have : EI b n0 { st with s := setStatus st.s r .waiting } := ⟨EvSteps_setStatus _ _ h.1, SubInv_setStatus _ _ h.2⟩
          exact EI_runs this rfl rfl
        · exact Keep_runs (s := setStatus st.s r .waiting) rfl _ (Keep_setStatus _ _ _ _ _ hs)
      · split
        · rename_i heq; rw [heq] at hp; exact hp
        · rename_i heq; rw [heq] at hp; exact ⟨hp.1, hp.2 _ hs⟩
        · trivial

theorem visitNode_ev {b : Nat → List Ev} {n0 : Nat} (st : St) (r d : Nat) (node : Node) (vc : VisitChoice)
    (h : EI b n0 st) : VisitEv b n0 r (visitNode st r d node vc) := by
  unfold visitNode
  simp only
  have e1 : EI b n0 (createStep st r d).1 :=
    ⟨EvSteps_same h.1 (fun _ => ⟨rfl, by simp⟩), SubInv_modifyRun h.2 (fun _ => rfl)⟩
  have s1 : StepOf (createStep st r d).1.s r (some (createStep st r d).2) := by
    intro sr hsr
    simp only [Option.some.injEq] at hsr
    subst hsr
    refine ⟨rfl, fun x hx => ?_⟩
    simp only [createStep] at hx ⊢
    rw [getElem?_modifyRun] at hx
    cases hy : st.s.runs[r]? with
    | none => rw [hy] at hx; cases hx
    | some y =>
      rw [hy] at hx
      simp only [Option.map_some, if_true, Option.some.injEq] at hx
      subst hx
      simp
  have h1 := EvSteps_logEvents r (some (createStep st r d).2) vc.events e1.1 s1
  have h2 := SubInv_logEvents r (some (createStep st r d).2) vc.events e1.2
  generalize logEvents (createStep st r d).1 r (some (createStep st r d).2) vc.events = st2 at h1 h2
  apply visitTail_ev
  · unfold setPushedOpt
    split
    · exact EI_runs ⟨h1.1, h2⟩ rfl rfl
    · exact ⟨h1.1, h2⟩
  · unfold setPushedOpt
    split
    · exact Keep_runs (s := st2.s) rfl _ h1.2
    · exact h1.2

theorem StepOf_pathLocation {a : Assets} {s : Session} {r : Nat} {step : StepRef} {node : Node}
    (h : pathLocation a s r = some (step, node)) : StepOf s r (some step) := by
  unfold pathLocation at h
  cases hx : s.runs[r]? with
  | none => simp [hx] at h
  | some x =>
    cases hl : x.path.getLast? with
    | none => simp [hx, hl] at h
    | some t =>
      cases hn : getNode a x.flow t.node with
      | none => simp [hx, hl, hn] at h
      | some n =>
        simp only [hx, hl, hn, Option.bind_some, Option.bind_eq_bind, Option.pure_def, Option.some.injEq, Prod.mk.injEq] at h
        intro sr hsr
        simp only [Option.some.injEq] at hsr
        subst hsr
        rw [← h.1]
        refine ⟨rfl, fun y hy => ?_⟩
        rw [hx] at hy
        simp only [Option.some.injEq] at hy
        subst hy
        have : x.path ≠ [] := by intro e; rw [e] at hl; cases hl
        have := List.length_pos_iff.2 this
        show x.path.length - 1 < x.path.length
        omega

theorem StepOf_pathLocation_map (a : Assets) (s : Session) (r : Nat) :
    StepOf s r ((pathLocation a s r).map Prod.fst) := by
  cases h : pathLocation a s r with
  | none => exact StepOf_none _ _
  | some x => obtain ⟨step, node⟩ := x; exact StepOf_pathLocation h

def FindEv (b : Nat → List Ev) (n0 : Nat) (s : Session) (r : Nat) : FindResult → Prop
  | .err st' => EI b n0 st' ∧ Keep s st'.s r
  | .ok st' _ => EI b n0 st' ∧ Keep s st'.s r
  | .tapeErr _ => True

theorem findResumeExit_ev {b : Nat → List Ev} {n0 : Nat} (a : Assets) (orc : Oracle) (st : St) (r : Nat)
    (h : EI b n0 st) : FindEv b n0 st.s r (findResumeExit a orc st r) := by
  unfold findResumeExit
  split
  · exact ⟨h, Keep.refl _ _⟩
  · split
    · exact ⟨h, Keep.refl _ _⟩
    · rename_i step node hloc
      split
      · rename_i rr _
        have hp := pickNodeExit_ev st r node step rr.events rr.route h (StepOf_pathLocation hloc)
        split
        · rename_i st' heq
          rw [heq] at hp
          -- a Go error from the router: the events logged so far stay, paths are untouched
          refine ⟨hp, ?_⟩
          unfold pickNodeExit at heq
          simp only at heq
          split at heq
          · split at heq
            · cases heq; exact Keep_logEvents _ _ _ _ _
            · cases heq
            · split at heq <;> cases heq
            · cases heq
          · split at heq
            · split at heq
              · split at heq <;> cases heq
              · split at heq <;> cases heq
            · cases heq
        · rename_i heq; rw [heq] at hp; exact hp
        · trivial
      · trivial


/-! ### the loop -/

structure LE (b : Nat → List Ev) (n0 : Nat) (l : Loop) : Prop where
  ei : EI b n0 l.st
  step : ∀ c, l.cur = some c → StepOf l.st.s c l.step
  noCur : l.cur = none → l.step = none

def ResEv (b : Nat → List Ev) (n0 : Nat) : Result → Prop
  | .ok st => EI b n0 st
  | .goErr st => EI b n0 st
  | _ => True

def IterEv (b : Nat → List Ev) (n0 : Nat) : Sum Loop Result → Prop
  | .inl l' => LE b n0 l'
  | .inr r => ResEv b n0 r

theorem EI_exitAll {b : Nat → List Ev} {n0 : Nat} {st : St} (h : EI b n0 st) :
    EI b n0 { st with s := exitAll st.s } := by
  refine ⟨EvSteps_congr ?_ h.1, SubInv_congr h.2 ?_ rfl⟩
  · simp only [exitAll, List.map_map]; rfl
  · simp only [exitAll, List.map_map]; rfl

theorem EI_append {b : Nat → List Ev} {n0 : Nat} {st : St} (fl : Nat) (par : Option Nat) (h : EI b n0 st) :
    EI b n0 { st with s := { st.s with runs := st.s.runs ++ [⟨fl, par, .active, false, [], []⟩], pushed := none } } := by
  constructor
  · intro i x hx e he sr hsr
    simp only at hx
    rcases Nat.lt_or_ge i st.s.runs.length with hl | hl
    · rw [List.getElem?_append_left hl] at hx
      exact h.1 i x hx e he sr hsr
    · rw [List.getElem?_append_right hl] at hx
      cases hd : i - st.s.runs.length with
      | zero =>
        rw [hd] at hx
        simp only [List.getElem?_cons_zero, Option.some.injEq] at hx
        subst hx
        simp at he
      | succ n => rw [hd] at hx; simp at hx
  · refine ⟨by simp only [List.length_append, List.length_cons, List.length_nil]; have := h.2.1; omega, h.2.2.1, ?_⟩
    intro i x hx
    simp only at hx
    rcases Nat.lt_or_ge i st.s.runs.length with hl | hl
    · rw [List.getElem?_append_left hl] at hx
      exact h.2.2.2 i x hx
    · rw [List.getElem?_append_right hl] at hx
      cases hd : i - st.s.runs.length with
      | zero =>
        rw [hd] at hx
        simp only [List.getElem?_cons_zero, Option.some.injEq] at hx
        subst hx
        refine ⟨[], ?_, List.nil_sublist _⟩
        rw [h.2.2.1 i (Nat.le_trans h.2.1 hl)]
        rfl
      | succ n => rw [hd] at hx; simp at hx

theorem pickDest_ev {b : Nat → List Ev} {n0 : Nat} (a : Assets) (l : Loop) (h : LE b n0 l) :
    LE b n0 (pickDest a l).1 := by
  unfold pickDest
  split
  · rename_i p _
    simp only
    refine ⟨?_, fun _ _ => StepOf_none _ _, fun hc => by cases hc⟩
    split
    · exact EI_append p.flow l.cur (EI_exitAll h.ei)
    · exact EI_append p.flow l.cur h.ei
  · split
    · exact ⟨h.ei, h.step, h.noCur⟩
    · exact ⟨h.ei, h.step, h.noCur⟩

theorem noDest_ev {b : Nat → List Ev} {n0 : Nat} (a : Assets) (orc : Oracle) (l : Loop) (cur : Nat)
    (h : LE b n0 l) : IterEv b n0 (noDest a orc l cur) := by
  unfold noDest
  simp only
  have hs1 : EI b n0 { l.st with s := (if ((l.st.s.runs[cur]?).map (·.exited)).getD true then l.st.s else exitRun l.st.s cur .completed) } := by
    split
    · exact h.ei
    · exact ⟨EvSteps_exitRun _ _ h.ei.1, SubInv_exitRun _ _ h.ei.2⟩
  generalize (if ((l.st.s.runs[cur]?).map (·.exited)).getD true then l.st.s else exitRun l.st.s cur .completed) = s at hs1
  have hstep := StepOf_pathLocation_map a s
  split
  · rename_i p _
    split
    · split
      · split
        · refine ⟨EI_failRun p none hs1 (StepOf_none _ _), fun c hc => ?_, fun hc => by cases hc⟩
          simp only [Option.some.injEq] at hc
          subst hc
          exact Keep_failRun { l.st with s := s } _ _ _ _ (hstep _)
        · have hf := findResumeExit_ev a orc { l.st with s := s } p hs1
          split
          · rename_i st' heq
            rw [heq] at hf; simp only [FindEv] at hf
            refine ⟨EI_failRun p none hf.1 (StepOf_none _ _), fun c hc => ?_, fun hc => by cases hc⟩
            simp only [Option.some.injEq] at hc
            subst hc
            exact Keep_failRun st' _ _ _ _ (hf.2 _ (hstep _))
          · rename_i st' e heq
            rw [heq] at hf; simp only [FindEv] at hf
            refine ⟨hf.1, fun c hc => ?_, fun hc => by cases hc⟩
            simp only [Option.some.injEq] at hc
            subst hc
            exact hf.2 _ (hstep _)
          · trivial
      · refine ⟨EI_failRun p _ hs1 (hstep _), fun c hc => ?_, fun hc => by cases hc⟩
        simp only [Option.some.injEq] at hc
        subst hc
        exact Keep_failRun { l.st with s := s } _ _ _ _ (hstep _)
    · exact EI_runs hs1 rfl rfl
  · exact EI_runs hs1 rfl rfl

theorem goDest_ev {b : Nat → List Ev} {n0 : Nat} (a : Assets) (o : Opts) (orc : Oracle) (l : Loop) (cur d : Nat)
    (h : LE b n0 l) (hc : l.cur = some cur) : IterEv b n0 (goDest a o orc l cur d) := by
  unfold goDest
  simp only
  split
  · refine ⟨EI_failRun cur _ h.ei (h.step cur hc), fun c hc' => ?_, fun hn => by rw [hc] at hn; cases hn⟩
    simp only at hc'
    rw [hc] at hc'
    simp only [Option.some.injEq] at hc'
    subst hc'
    exact Keep_failRun l.st _ _ _ _ (h.step _ hc)
  · split
    · exact h.ei
    · rename_i node _
      split
      · rename_i vc _
        have hv := visitNode_ev l.st cur d node vc h.ei
        split
        · rename_i st' heq
          rw [heq] at hv; exact hv
        · trivial
        · rename_i st' step e heq
          rw [heq] at hv; simp only [VisitEv] at hv
          split
          · exact hv.1
          · refine ⟨hv.1, fun c hc' => ?_, fun hn => by simp only at hn; rw [hc] at hn; cases hn⟩
            simp only at hc'
            rw [hc] at hc'
            simp only [Option.some.injEq] at hc'
            subst hc'
            exact hv.2
      · trivial

theorem iter_ev {b : Nat → List Ev} {n0 : Nat} (a : Assets) (o : Opts) (orc : Oracle) (l : Loop) (h : LE b n0 l) :
    IterEv b n0 (iter a o orc l) := by
  have hpd := pickDest_ev a l h
  unfold iter
  simp only
  split
  · trivial
  · exact noDest_ev a orc _ _ hpd
  · rename_i cur d hcur _
    exact goDest_ev a o orc _ cur d hpd hcur

theorem loop_ev {b : Nat → List Ev} {n0 : Nat} (a : Assets) (o : Opts) (orc : Oracle) (fuel : Nat) (l : Loop)
    (h : LE b n0 l) : ResEv b n0 (loop a o orc fuel l) := by
  induction fuel generalizing l with
  | zero => simp [loop, ResEv]
  | succ fuel ih =>
    simp only [loop]
    have h1 := iter_ev a o orc l h
    split
    · rename_i l' heq; rw [heq] at h1; exact ih l' h1
    · rename_i r heq; rw [heq] at h1; exact h1

/-! ### `start` and `Resume` -/

theorem start_ev (a : Assets) (o : Opts) (orc : Oracle) : ResEv (fun _ => []) 0 (start a o orc) := by
  have h0 : ∀ sp, EI (fun _ => []) 0 ⟨emptySession, sp⟩ := by
    intro sp
    refine ⟨?_, Nat.zero_le _, fun _ _ => rfl, ?_⟩
    · intro i x hx; simp [emptySession] at hx
    · intro i x hx; simp [emptySession] at hx
  unfold start
  simp only
  split
  · exact h0 _
  · apply loop_ev
    exact ⟨EI_runs (h0 _) rfl rfl, fun c hc => (by cases hc), fun _ => rfl⟩

/-- the events the runs of `s` hold before the call -/
def before (s : Session) (r : Nat) : List Ev := ((s.runs[r]?).map (·.events)).getD []

theorem EI_init (s : Session) (h : EvSteps s) : EI (before s) s.runs.length ⟨s, []⟩ := by
  refine ⟨h, Nat.le_refl _, ?_, ?_⟩
  · intro r hr; simp [before, List.getElem?_eq_none hr]
  · intro r x hx
    exact ⟨[], by simp [before, hx], List.nil_sublist _⟩

theorem EI_failSession {b : Nat → List Ev} {n0 : Nat} {st : St} (w : Nat) (h : EI b n0 st) :
    EI b n0 (failSession st w) := by
  have h1 := EI_failRun w none h (StepOf_none _ _)
  have key : ∀ (g : Run → Run), (∀ x, (g x).events = x.events ∧ (g x).path = x.path) →
      EI b n0 { failRun st w none with s := { (failRun st w none).s with runs := (failRun st w none).s.runs.map g, status := .failed } } := by
    intro g hg
    refine ⟨EvSteps_congr ?_ h1.1, SubInv_congr h1.2 ?_ rfl⟩
    · simp only [List.map_map]
      apply List.map_congr_left
      intro x _
      simp [(hg x).1, (hg x).2]
    · simp only [List.map_map]
      apply List.map_congr_left
      intro x _
      simp [(hg x).1]
  exact key _ (fun x => by split <;> exact ⟨rfl, rfl⟩)

theorem baseApply_ev {b : Nat → List Ev} {n0 : Nat} (orc : Oracle) (st : St) (r : Nat) (step : StepRef)
    (h : EI b n0 st) (hs : StepOf st.s r (some step)) :
    EI b n0 (baseApply orc st r step) ∧ StepOf (baseApply orc st r step).s r (some step) := by
  unfold baseApply
  simp only
  have h1 := EvSteps_logEvents r (some step) orc.applyBase h.1 hs
  have h2 := SubInv_logEvents r (some step) orc.applyBase h.2
  split
  · exact ⟨⟨EvSteps_setStatus _ _ h1.1, SubInv_setStatus _ _ h2⟩, Keep_setStatus _ _ _ _ _ h1.2⟩
  · exact ⟨⟨h1.1, h2⟩, h1.2⟩

theorem logEvent_ev {b : Nat → List Ev} {n0 : Nat} (st : St) (r : Nat) (step : StepRef) (k : EvK)
    (h : EI b n0 st) (hs : StepOf st.s r (some step)) :
    EI b n0 (logEvent st r (some step) k) ∧ StepOf (logEvent st r (some step) k).s r (some step) :=
  ⟨⟨EvSteps_logEvent r _ k h.1 hs, SubInv_logEvent r _ k h.2⟩, StepOf_logEvent k hs⟩

theorem applyResume_ev {b : Nat → List Ev} {n0 : Nat} (orc : Oracle) (st : St) (r : Nat) (step : StepRef)
    (k : ResumeKind) (h : EI b n0 st) (hs : StepOf st.s r (some step)) :
    EI b n0 (applyResume orc st r step k) ∧ StepOf (applyResume orc st r step k).s r (some step) := by
  unfold applyResume
  simp only
  have fin : ∀ st' : St, EI b n0 st' → StepOf st'.s r (some step) →
      EI b n0 (logEvents st' r (some step) orc.applyGroups) ∧ StepOf (logEvents st' r (some step) orc.applyGroups).s r (some step) :=
    fun st' h' hs' => ⟨⟨(EvSteps_logEvents r _ _ h'.1 hs').1, SubInv_logEvents r _ _ h'.2⟩, (EvSteps_logEvents r _ _ h'.1 hs').2⟩
  cases k with
  | msg =>
    have h1 := baseApply_ev orc st r step h hs
    have h2 := logEvent_ev _ r step ⟨resumeEventKind .msg, false⟩ h1.1 h1.2
    exact fin _ h2.1 h2.2
  | timeout =>
    have h1 := logEvent_ev st r step ⟨resumeEventKind .timeout, false⟩ h hs
    have h2 := baseApply_ev orc _ r step h1.1 h1.2
    exact fin _ h2.1 h2.2
  | dial =>
    have h1 := logEvent_ev st r step ⟨resumeEventKind .dial, false⟩ h hs
    have h2 := baseApply_ev orc _ r step h1.1 h1.2
    exact fin _ h2.1 h2.2
  | expiration =>
    have h0 : EI b n0 { st with s := exitRun st.s r .expired } := ⟨EvSteps_exitRun _ _ h.1, SubInv_exitRun _ _ h.2⟩
    have hs0 : StepOf (exitRun st.s r .expired) r (some step) := Keep_exitRun _ _ _ _ _ hs
    have h1 := logEvent_ev { st with s := exitRun st.s r .expired } r step ⟨resumeEventKind .expiration, false⟩ h0 hs0
    have h2 := baseApply_ev orc _ r step h1.1 h1.2
    exact fin _ h2.1 h2.2

theorem resume_ev (a : Assets) (o : Opts) (orc : Oracle) (s : Session) (k : ResumeKind) (h : EvSteps s) :
    ResEv (before s) s.runs.length (resume a o orc s k) := by
  unfold resume
  simp only
  have h0 := EI_init s h
  have hfs : ∀ w, ResEv (before s) s.runs.length (.ok (failSession ⟨s, []⟩ w)) := fun w => EI_failSession w h0
  split
  · trivial
  · split
    · trivial
    · rename_i w hwr
      split
      · exact hfs w
      · split
        · exact hfs w
        · split
          · exact hfs w
          · rename_i step node hloc
            split
            · exact hfs w
            · split
              · trivial
              · have h1 : EI (before s) s.runs.length ⟨{ s with status := .active }, []⟩ := EI_runs h0 rfl rfl
                have hs1 : StepOf ({ s with status := SessStatus.active } : Session) w (some step) :=
                  Keep_runs (s := s) rfl _ (StepOf_pathLocation hloc)
                have ha := applyResume_ev orc ⟨{ s with status := .active }, []⟩ w step k h1 hs1
                generalize applyResume orc ⟨{ s with status := .active }, []⟩ w step k = st1 at ha
                have hf := findResumeExit_ev a orc st1 w ha.1
                split
                · rename_i st' heq
                  rw [heq] at hf
                  exact EI_failSession w hf.1
                · trivial
                · rename_i st' e heq
                  rw [heq] at hf; simp only [FindEv] at hf
                  apply loop_ev
                  refine ⟨hf.1, fun c hc => ?_, fun hc => by cases hc⟩
                  simp only [Option.some.injEq] at hc
                  subst hc
                  exact hf.2 _ ha.2

end GoflowModel.Engine
