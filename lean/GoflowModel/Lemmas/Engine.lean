import GoflowModel.Engine.Model
/-! Invariants of the engine model and their preservation by each primitive. -/
namespace GoflowModel.Engine

def Ended (st : RunStatus) : Prop := st = .completed ∨ st = .failed ∨ st = .expired

instance (st : RunStatus) : Decidable (Ended st) := by unfold Ended; infer_instance

/-- clause (iv) of C01 for one run -/
def RunOK (x : Run) : Prop := x.exited = true ↔ Ended x.status

/-- clause (iv) for every run of the session -/
def SessOK (s : Session) : Prop := ∀ (i : Nat) (x : Run), s.runs[i]? = some x → RunOK x

theorem getElem?_modifyRun (s : Session) (r : Nat) (f : Run → Run) (i : Nat) :
    (modifyRun s r f).runs[i]? = (s.runs[i]?).map (fun x => if r = i then f x else x) := by
  simp only [modifyRun, List.getElem?_modify]
  rfl

theorem SessOK_modifyRun {s : Session} {r : Nat} {f : Run → Run} (h : SessOK s)
    (hf : ∀ x, s.runs[r]? = some x → RunOK (f x)) : SessOK (modifyRun s r f) := by
  unfold SessOK
  intro i x hx
  rw [getElem?_modifyRun] at hx
  cases hi : s.runs[i]? with
  | none => simp [hi] at hx
  | some y =>
    simp only [hi, Option.map_some, Option.some.injEq] at hx
    by_cases e : r = i
    · subst e; simp only [if_true] at hx; subst hx; exact hf y hi
    · simp only [e, if_false] at hx; subst hx; exact h i y hi

theorem SessOK_exitRun {s : Session} (r : Nat) {st : RunStatus} (h : SessOK s) (he : Ended st) :
    SessOK (exitRun s r st) := by
  apply SessOK_modifyRun h
  intro x _
  simp [RunOK, he]

/-- status of run `r` -/
theorem runStatus_modifyRun (s : Session) (r : Nat) (f : Run → Run) (i : Nat) :
    runStatus (modifyRun s r f) i = (s.runs[i]?).map (fun x => if r = i then (f x).status else x.status) := by
  simp only [runStatus, getElem?_modifyRun, Option.map_map]
  congr 1
  funext x
  simp only [Function.comp]
  split <;> rfl

theorem runStatus_modifyRun_same (s : Session) (r : Nat) (f : Run → Run) (i : Nat)
    (hf : ∀ x, (f x).status = x.status) : runStatus (modifyRun s r f) i = runStatus s i := by
  rw [runStatus_modifyRun]
  simp only [runStatus]
  congr 1
  funext x
  split <;> simp [hf]

theorem SessOK_sameStatus {s : Session} {r : Nat} {f : Run → Run} (h : SessOK s)
    (hf : ∀ x, (f x).status = x.status ∧ (f x).exited = x.exited) : SessOK (modifyRun s r f) := by
  apply SessOK_modifyRun h
  intro x hx
  have := h r x hx
  simp only [RunOK, (hf x).1, (hf x).2] at *
  exact this

/-! `logEvent`, `logEvents`, `leave`, `failRun` change neither statuses nor exited flags -/

theorem logEvent_pushed (st : St) (r : Nat) (step : Option StepRef) (k : EvK) :
    (logEvent st r step k).s.pushed = st.s.pushed := rfl
theorem logEvent_status (st : St) (r : Nat) (step : Option StepRef) (k : EvK) :
    (logEvent st r step k).s.status = st.s.status := rfl

theorem SessOK_logEvent {st : St} (r : Nat) (step : Option StepRef) (k : EvK) (h : SessOK st.s) :
    SessOK (logEvent st r step k).s :=
  SessOK_sameStatus h (fun _ => ⟨rfl, rfl⟩)

theorem runStatus_logEvent (st : St) (r : Nat) (step : Option StepRef) (k : EvK) (i : Nat) :
    runStatus (logEvent st r step k).s i = runStatus st.s i :=
  runStatus_modifyRun_same _ _ _ _ (fun _ => rfl)

theorem logEvents_props (st : St) (r : Nat) (step : Option StepRef) (ks : List EvK) :
    (SessOK st.s → SessOK (logEvents st r step ks).s) ∧
    (∀ i, runStatus (logEvents st r step ks).s i = runStatus st.s i) ∧
    (logEvents st r step ks).s.pushed = st.s.pushed ∧
    (logEvents st r step ks).s.status = st.s.status := by
  unfold logEvents
  induction ks generalizing st with
  | nil => simp
  | cons k ks ih =>
    simp only [List.foldl_cons]
    have := ih (logEvent st r step k)
    refine ⟨fun h => this.1 (SessOK_logEvent r step k h), fun i => ?_, ?_, ?_⟩
    · rw [this.2.1 i, runStatus_logEvent]
    · rw [this.2.2.1, logEvent_pushed]
    · rw [this.2.2.2, logEvent_status]

theorem SessOK_leave {s : Session} (r : Nat) (e : Option Nat) (h : SessOK s) : SessOK (leave s r e) :=
  SessOK_sameStatus h (fun _ => ⟨rfl, rfl⟩)

theorem runStatus_leave (s : Session) (r : Nat) (e : Option Nat) (i : Nat) :
    runStatus (leave s r e) i = runStatus s i :=
  runStatus_modifyRun_same _ _ _ _ (fun _ => rfl)

theorem SessOK_failRun {st : St} (r : Nat) (step : Option StepRef) (h : SessOK st.s) :
    SessOK (failRun st r step).s := by
  unfold failRun
  exact SessOK_logEvent _ _ _ (SessOK_exitRun r h (Or.inr (Or.inl rfl)))

theorem failRun_status (st : St) (r : Nat) (step : Option StepRef) :
    (failRun st r step).s.status = st.s.status := rfl
theorem failRun_pushed (st : St) (r : Nat) (step : Option StepRef) :
    (failRun st r step).s.pushed = st.s.pushed := rfl

theorem SessOK_exitAll {s : Session} : SessOK (exitAll s) := by
  unfold SessOK
  intro i x hx
  simp only [exitAll, List.getElem?_map] at hx
  cases h : s.runs[i]? with
  | none => simp [h] at hx
  | some y =>
    simp only [h, Option.map_some, Option.some.injEq] at hx
    subst hx
    simp [RunOK, Ended]

theorem SessOK_append {s : Session} {x : Run} (h : SessOK s) (hx : RunOK x) (p : Option Pushed) :
    SessOK { s with runs := s.runs ++ [x], pushed := p } := by
  unfold SessOK
  intro i y hy
  simp only [List.getElem?_append] at hy
  split at hy
  · exact h i y hy
  · cases hi : i - s.runs.length with
    | zero => simp [hi] at hy; subst hy; exact hx
    | succ n => simp [hi] at hy

theorem SessOK_setPushed {s : Session} (h : SessOK s) (p : Option Pushed) : SessOK { s with pushed := p } := h
theorem SessOK_setSessStatus {s : Session} (h : SessOK s) (x : SessStatus) : SessOK { s with status := x } := h

theorem SessOK_setWaiting {s : Session} {r : Nat} (h : SessOK s) (ha : runStatus s r = some .active) :
    SessOK (setStatus s r .waiting) := by
  apply SessOK_modifyRun h
  intro x hx
  have hr := h r x hx
  have hs : x.status = .active := by simpa [runStatus, hx] using ha
  simp only [RunOK, Ended, hs] at hr
  simp only [RunOK, Ended]
  constructor
  · intro he; exact absurd (hr.1 he) (by simp)
  · intro he; simp at he

theorem SessOK_setActive {s : Session} {r : Nat} (h : SessOK s) (ha : runStatus s r = some .waiting) :
    SessOK (setStatus s r .active) := by
  apply SessOK_modifyRun h
  intro x hx
  have hr := h r x hx
  have hs : x.status = .waiting := by simpa [runStatus, hx] using ha
  simp only [RunOK, Ended, hs] at hr
  simp only [RunOK, Ended]
  constructor
  · intro he; exact absurd (hr.1 he) (by simp)
  · intro he; simp at he

/-! ### `pickNodeExit` -/

def PickPost (st : St) : PickResult → Prop
  | .goErr _ => True
  | .tapeErr _ => True
  | .ok st' e => SessOK st'.s ∧ st'.s.status = st.s.status ∧ st'.s.pushed = st.s.pushed ∧
      (e.isSome → ∀ i, runStatus st'.s i = runStatus st.s i)

theorem pickNodeExit_post (st : St) (r : Nat) (node : Node) (step : StepRef) (evs : List EvK)
    (c : RouteChoice) (h : SessOK st.s) : PickPost st (pickNodeExit st r node step evs c) := by
  have hl := logEvents_props st r (some step) evs
  unfold pickNodeExit
  simp only
  split
  · split
    · trivial
    · simp only [PickPost]
      refine ⟨SessOK_failRun _ _ (hl.1 h), ?_, ?_, by simp⟩
      · rw [failRun_status, hl.2.2.2]
      · rw [failRun_pushed, hl.2.2.1]
    · split
      · simp only [PickPost]
        refine ⟨SessOK_leave _ _ (hl.1 h), hl.2.2.2, hl.2.2.1, fun _ i => ?_⟩
        rw [runStatus_leave, hl.2.1]
      · trivial
    · trivial
  · split
    · split
      · split
        · simp only [PickPost]
          refine ⟨SessOK_leave _ _ (hl.1 h), hl.2.2.2, hl.2.2.1, fun _ i => ?_⟩
          rw [runStatus_leave, hl.2.1]
        · trivial
      · split
        · simp only [PickPost]
          refine ⟨SessOK_leave _ _ (hl.1 h), hl.2.2.2, hl.2.2.1, fun _ i => ?_⟩
          rw [runStatus_leave, hl.2.1]
        · trivial
    · trivial

/-! ### `visitNode` -/

def VisitPost (r : Nat) : VisitResult → Prop
  | .goErr _ => True
  | .tapeErr _ => True
  | .ok st' _ e => SessOK st'.s ∧ (e.isSome → runStatus st'.s r = some .active ∧ st'.s.pushed = none)

/-- session-level facts of a visit: the status only ever changes to `waiting`, and then nothing is pushed -/
def VisitPost2 (st : St) : VisitResult → Prop
  | .goErr _ => True
  | .tapeErr _ => True
  | .ok st' _ _ => (st'.s.status = .waiting ∧ st'.s.pushed = none) ∨ st'.s.status = st.s.status

theorem runStatus_appendStep (s : Session) (r : Nat) (t : Step) (i : Nat) :
    runStatus (modifyRun s r fun x => { x with path := x.path ++ [t] }) i = runStatus s i :=
  runStatus_modifyRun_same _ _ _ _ (fun _ => rfl)

theorem visitTail_post (st : St) (r : Nat) (node : Node) (step : StepRef) (vc : VisitChoice)
    (h3 : SessOK st.s) (a3 : runStatus st.s r = some .active) :
    VisitPost r (visitTail st r node step vc) := by
  unfold visitTail
  split
  · trivial
  · simp only [VisitPost]; exact ⟨h3, by simp⟩
  · simp only [VisitPost]
    exact ⟨SessOK_setPushed (SessOK_exitRun r h3 (Or.inr (Or.inl rfl))) none, by simp⟩
  · split
    · simp only [VisitPost]; exact ⟨h3, by simp⟩
    · rename_i hp
      split
      · simp only [VisitPost]
        exact ⟨SessOK_setSessStatus (SessOK_setWaiting h3 a3) _, by simp⟩
      · have hp' := pickNodeExit_post st r node step [] vc.route h3
        split
        · trivial
        · rename_i st' e heq
          rw [heq] at hp'
          simp only [PickPost] at hp'
          simp only [VisitPost]
          refine ⟨hp'.1, fun he => ⟨?_, ?_⟩⟩
          · rw [hp'.2.2.2 he r]; exact a3
          · rw [hp'.2.2.1]
            cases hq : st.s.pushed with
            | none => rfl
            | some q => simp [hq] at hp
        · trivial

theorem visitTail_post2 (st : St) (r : Nat) (node : Node) (step : StepRef) (vc : VisitChoice) :
    VisitPost2 st (visitTail st r node step vc) := by
  unfold visitTail
  split
  · trivial
  · simp [VisitPost2]
  · simp [VisitPost2, exitRun, modifyRun]
  · split
    · simp [VisitPost2]
    · rename_i hp
      split
      · simp only [VisitPost2]
        left
        refine ⟨by simp, ?_⟩
        cases hq : st.s.pushed with
        | none => simp [setStatus, modifyRun, hq]
        | some q => simp [hq] at hp
      · split
        · trivial
        · rename_i st' e heq
          simp only [VisitPost2]
          right
          -- pickNodeExit keeps the session status
          unfold pickNodeExit at heq
          simp only [logEvents, List.foldl_nil] at heq
          split at heq
          · split at heq
            · cases heq
            · cases heq; rfl
            · split at heq
              · cases heq; rfl
              · cases heq
            · cases heq
          · split at heq
            · split at heq
              · split at heq
                · cases heq; rfl
                · cases heq
              · split at heq
                · cases heq; rfl
                · cases heq
            · cases heq
        · trivial

theorem visitNode_post2 (st : St) (r nodeIdx : Nat) (node : Node) (vc : VisitChoice) :
    VisitPost2 st (visitNode st r nodeIdx node vc) := by
  unfold visitNode
  simp only
  have hl := logEvents_props (createStep st r nodeIdx).1 r (some (createStep st r nodeIdx).2) vc.events
  have key := visitTail_post2 (setPushedOpt (logEvents (createStep st r nodeIdx).1 r (some (createStep st r nodeIdx).2) vc.events) vc.pushed) r node (createStep st r nodeIdx).2 vc
  have hs : (setPushedOpt (logEvents (createStep st r nodeIdx).1 r (some (createStep st r nodeIdx).2) vc.events) vc.pushed).s.status = st.s.status := by
    unfold setPushedOpt
    split
    · show (logEvents _ _ _ _).s.status = _; rw [hl.2.2.2]; rfl
    · rw [hl.2.2.2]; rfl
  revert key
  generalize visitTail _ r node _ vc = res
  intro key
  cases res with
  | goErr _ => trivial
  | tapeErr _ => trivial
  | ok st' sp e =>
    simp only [VisitPost2] at key ⊢
    rcases key with k | k
    · exact Or.inl k
    · exact Or.inr (k.trans hs)

theorem visitNode_post (st : St) (r nodeIdx : Nat) (node : Node) (vc : VisitChoice)
    (h : SessOK st.s) (ha : runStatus st.s r = some .active) :
    VisitPost r (visitNode st r nodeIdx node vc) := by
  unfold visitNode
  simp only
  have h1 : SessOK (createStep st r nodeIdx).1.s := SessOK_sameStatus h (fun _ => ⟨rfl, rfl⟩)
  have a1 : runStatus (createStep st r nodeIdx).1.s r = some .active := by
    simp only [createStep]; rw [runStatus_appendStep]; exact ha
  have hl := logEvents_props (createStep st r nodeIdx).1 r (some (createStep st r nodeIdx).2) vc.events
  apply visitTail_post
  · unfold setPushedOpt; split <;> exact hl.1 h1
  · unfold setPushedOpt
    split
    · show runStatus (logEvents _ _ _ _).s r = _; rw [hl.2.1]; exact a1
    · rw [hl.2.1]; exact a1

/-! ### `findResumeExit` -/

def FindPost (st : St) (r : Nat) : FindResult → Prop
  | .err st' => SessOK st'.s ∧ st'.s.status = st.s.status ∧ st'.s.pushed = st.s.pushed
  | .tapeErr _ => True
  | .ok st' e => SessOK st'.s ∧ st'.s.status = st.s.status ∧ st'.s.pushed = st.s.pushed ∧
      (e.isSome → runStatus st'.s r = some .active)

theorem findResumeExit_post (a : Assets) (orc : Oracle) (st : St) (r : Nat) (h : SessOK st.s) :
    FindPost st r (findResumeExit a orc st r) := by
  unfold findResumeExit
  split
  · simp only [FindPost]; exact ⟨h, trivial, trivial, by simp⟩
  · rename_i hact
    have hact' : runStatus st.s r = some .active := by simpa using hact
    split
    · simp only [FindPost]; exact ⟨h, trivial, trivial⟩
    · rename_i step node _
      split
      · rename_i rr _
        have hp := pickNodeExit_post st r node step rr.events rr.route h
        split
        · rename_i st' heq
          -- a Go error from the router: the state is the one with the router's events logged
          simp only [FindPost]
          have hl := logEvents_props st r (some step) rr.events
          unfold pickNodeExit at heq
          simp only at heq
          split at heq
          · split at heq
            · cases heq; exact ⟨hl.1 h, hl.2.2.2, hl.2.2.1⟩
            · cases heq
            · split at heq <;> cases heq
            · cases heq
          · split at heq
            · split at heq
              · split at heq <;> cases heq
              · split at heq <;> cases heq
            · cases heq
        · rename_i st' e heq
          rw [heq] at hp
          simp only [PickPost] at hp
          simp only [FindPost]
          exact ⟨hp.1, hp.2.1, hp.2.2.1, fun he => by rw [hp.2.2.2 he r]; exact hact'⟩
        · trivial
      · trivial

/-! ### the loop -/

/-- loop-head invariant -/
structure LI (l : Loop) : Prop where
  ok : SessOK l.st.s
  notWaiting : l.st.s.status ≠ .waiting
  exitActive : l.exit.isSome → l.st.s.pushed = none ∧ ∃ c, l.cur = some c ∧ runStatus l.st.s c = some .active

/-- what holds of a session handed back without error -/
def Post (st : St) : Prop :=
  SessOK st.s ∧ st.s.pushed = none ∧
  (st.s.status = .waiting ∨ st.s.status = .completed ∨ st.s.status = .failed)

def IterPost : Sum Loop Result → Prop
  | .inl l' => LI l'
  | .inr (.ok st) => Post st
  | .inr _ => True

theorem runStatus_append_new (s : Session) (x : Run) (p : Option Pushed) :
    runStatus { s with runs := s.runs ++ [x], pushed := p } s.runs.length = some x.status := by
  simp [runStatus]

theorem exitAll_length (s : Session) : (exitAll s).runs.length = s.runs.length := by
  simp [exitAll]

theorem pickDest_post (a : Assets) (l : Loop) (h : LI l) :
    SessOK (pickDest a l).1.st.s ∧ (pickDest a l).1.exit = none ∧ (pickDest a l).1.st.s.pushed = none ∧
    (pickDest a l).1.st.s.status = l.st.s.status ∧
    ((pickDest a l).2.isSome → ∃ c, (pickDest a l).1.cur = some c ∧ runStatus (pickDest a l).1.st.s c = some .active) := by
  unfold pickDest
  split
  · rename_i p hp
    have hex : l.exit = none := by
      cases he : l.exit with
      | none => rfl
      | some d => have := (h.exitActive (by simp [he])).1; rw [hp] at this; cases this
    simp only
    refine ⟨?_, hex, trivial, ?_, fun _ => ?_⟩
    · split
      · exact SessOK_append SessOK_exitAll (by simp [RunOK, Ended]) none
      · exact SessOK_append h.ok (by simp [RunOK, Ended]) none
    · split <;> rfl
    · refine ⟨_, rfl, ?_⟩
      split
      · exact runStatus_append_new (exitAll l.st.s) _ none
      · exact runStatus_append_new l.st.s _ none
  · rename_i hp
    split
    · rename_i d hd
      have := h.exitActive (by simp [hd])
      exact ⟨h.ok, rfl, hp, rfl, fun _ => this.2⟩
    · rename_i hd
      exact ⟨h.ok, hd, hp, rfl, by simp⟩

theorem endStatus_cases (s : Session) (cur : Nat) : endStatus s cur = .completed ∨ endStatus s cur = .failed := by
  unfold endStatus; split <;> simp

theorem noDest_post (a : Assets) (orc : Oracle) (l : Loop) (cur : Nat)
    (hok : SessOK l.st.s) (hex : l.exit = none) (hp : l.st.s.pushed = none) (hw : l.st.s.status ≠ .waiting) :
    IterPost (noDest a orc l cur) := by
  unfold noDest
  simp only
  generalize hs : (if ((l.st.s.runs[cur]?).map (·.exited)).getD true then l.st.s else exitRun l.st.s cur .completed) = s
  have hsok : SessOK s := by
    subst hs; split
    · exact hok
    · exact SessOK_exitRun cur hok (Or.inl rfl)
  have hsp : s.pushed = none := by subst hs; split <;> exact hp
  have hsw : s.status ≠ .waiting := by subst hs; split <;> exact hw
  have hend : IterPost (.inr (.ok { l.st with s := { s with status := endStatus s cur } })) := by
    simp only [IterPost, Post]
    exact ⟨hsok, hsp, Or.inr (endStatus_cases s cur)⟩
  split
  · rename_i p _
    split
    · split
      · split
        · simp only [IterPost]
          exact ⟨SessOK_failRun _ _ hsok, hsw, by simp [hex]⟩
        · have hf := findResumeExit_post a orc { l.st with s := s } p hsok
          split
          · rename_i st' heq
            rw [heq] at hf; simp only [FindPost] at hf
            simp only [IterPost]
            exact ⟨SessOK_failRun _ _ hf.1, by rw [failRun_status, hf.2.1]; exact hsw, by simp⟩
          · rename_i st' e heq
            rw [heq] at hf; simp only [FindPost] at hf
            simp only [IterPost]
            refine ⟨hf.1, by rw [hf.2.1]; exact hsw, fun he => ⟨by rw [hf.2.2.1]; exact hsp, p, rfl, hf.2.2.2 he⟩⟩
          · trivial
      · simp only [IterPost]
        exact ⟨SessOK_failRun _ _ hsok, hsw, by simp [hex]⟩
    · exact hend
  · exact hend

theorem goDest_post (a : Assets) (o : Opts) (orc : Oracle) (l : Loop) (cur d : Nat)
    (hok : SessOK l.st.s) (hex : l.exit = none) (hp : l.st.s.pushed = none) (hw : l.st.s.status ≠ .waiting)
    (hcur : l.cur = some cur) (hact : runStatus l.st.s cur = some .active) :
    IterPost (goDest a o orc l cur d) := by
  unfold goDest
  simp only
  split
  · simp only [IterPost]
    exact ⟨SessOK_failRun _ _ hok, hw, by simp [hex]⟩
  · split
    · trivial
    · rename_i node _
      split
      · rename_i vc _
        have hv := visitNode_post l.st cur d node vc hok hact
        have hv2 := visitNode_post2 l.st cur d node vc
        split
        · trivial
        · trivial
        · rename_i st' step e heq
          rw [heq] at hv hv2
          simp only [VisitPost] at hv
          simp only [VisitPost2] at hv2
          split
          · rename_i hwait
            simp only [IterPost, Post]
            rcases hv2 with k | k
            · exact ⟨hv.1, k.2, Or.inl hwait⟩
            · exact absurd (k ▸ hwait) hw
          · rename_i hnw
            simp only [IterPost]
            refine ⟨hv.1, hnw, fun he => ?_⟩
            have := hv.2 he
            exact ⟨this.2, cur, hcur, this.1⟩
      · trivial

theorem iter_post (a : Assets) (o : Opts) (orc : Oracle) (l : Loop) (h : LI l) :
    IterPost (iter a o orc l) := by
  have hp := pickDest_post a l h
  unfold iter
  simp only
  split
  · trivial
  · rename_i cur hc hd
    exact noDest_post a orc _ cur hp.1 hp.2.1 hp.2.2.1 (by rw [hp.2.2.2.1]; exact h.notWaiting)
  · rename_i cur d hc hd
    have := hp.2.2.2.2 (by simp [hd])
    obtain ⟨c, hc', hact⟩ := this
    rw [hc] at hc'
    cases hc'
    exact goDest_post a o orc _ cur d hp.1 hp.2.1 hp.2.2.1 (by rw [hp.2.2.2.1]; exact h.notWaiting) hc hact

def LoopPost : Result → Prop
  | .ok st => Post st
  | _ => True

theorem loop_post (a : Assets) (o : Opts) (orc : Oracle) (fuel : Nat) (l : Loop) (h : LI l) :
    LoopPost (loop a o orc fuel l) := by
  induction fuel generalizing l with
  | zero => simp [loop, LoopPost]
  | succ fuel ih =>
    simp only [loop]
    have := iter_post a o orc l h
    split
    · rename_i l' heq
      rw [heq] at this
      exact ih l' this
    · rename_i r heq
      rw [heq] at this
      cases r <;> simp_all [IterPost, LoopPost]

/-! ### `start`, `Resume` -/

theorem logSprintOnly_s (st : St) (ks : List EvK) : (logSprintOnly st ks).s = st.s := rfl

theorem start_post (a : Assets) (o : Opts) (orc : Oracle) : LoopPost (start a o orc) := by
  unfold start
  simp only
  split
  · trivial
  · apply loop_post
    refine ⟨?_, ?_, by simp⟩
    · unfold SessOK; intro i x hx; simp [logSprintOnly, emptySession] at hx
    · simp [logSprintOnly, emptySession]

theorem SessOK_failSession {st : St} (w : Nat) (h : SessOK st.s) : SessOK (failSession st w).s := by
  have hf := SessOK_failRun w none h
  unfold failSession
  simp only
  unfold SessOK
  intro i x hx
  simp only [List.getElem?_map] at hx
  cases hi : (failRun st w none).s.runs[i]? with
  | none => simp [hi] at hx
  | some y =>
    simp only [hi, Option.map_some, Option.some.injEq] at hx
    subst hx
    split
    · simp [RunOK, Ended]
    · exact hf i y hi

theorem failSession_post {st : St} (w : Nat) (h : SessOK st.s) (hp : st.s.pushed = none) :
    Post (failSession st w) := by
  refine ⟨SessOK_failSession w h, ?_, Or.inr (Or.inr rfl)⟩
  simp only [failSession]
  rw [failRun_pushed]; exact hp

theorem baseApply_props (orc : Oracle) (st : St) (r : Nat) (step : StepRef) (h : SessOK st.s) :
    SessOK (baseApply orc st r step).s ∧ (baseApply orc st r step).s.pushed = st.s.pushed ∧
    (baseApply orc st r step).s.status = st.s.status := by
  unfold baseApply
  have hl := logEvents_props st r (some step) orc.applyBase
  simp only
  split
  · rename_i hw
    exact ⟨SessOK_setActive (hl.1 h) hw, hl.2.2.1, hl.2.2.2⟩
  · exact ⟨hl.1 h, hl.2.2.1, hl.2.2.2⟩

theorem applyResume_props (orc : Oracle) (st : St) (r : Nat) (step : StepRef) (k : ResumeKind)
    (h : SessOK st.s) :
    SessOK (applyResume orc st r step k).s ∧ (applyResume orc st r step k).s.pushed = st.s.pushed ∧
    (applyResume orc st r step k).s.status = st.s.status := by
  unfold applyResume
  simp only
  have key : ∀ st' : St, SessOK st'.s → st'.s.pushed = st.s.pushed → st'.s.status = st.s.status →
      SessOK (logEvents st' r (some step) orc.applyGroups).s ∧
      (logEvents st' r (some step) orc.applyGroups).s.pushed = st.s.pushed ∧
      (logEvents st' r (some step) orc.applyGroups).s.status = st.s.status := by
    intro st' h1 h2 h3
    have hl := logEvents_props st' r (some step) orc.applyGroups
    exact ⟨hl.1 h1, hl.2.2.1.trans h2, hl.2.2.2.trans h3⟩
  cases k with
  | msg =>
    have hb := baseApply_props orc st r step h
    exact key _ (SessOK_logEvent _ _ _ hb.1) hb.2.1 hb.2.2
  | timeout =>
    have hb := baseApply_props orc (logEvent st r (some step) ⟨resumeEventKind .timeout, false⟩) r step (SessOK_logEvent _ _ _ h)
    exact key _ hb.1 hb.2.1 hb.2.2
  | dial =>
    have hb := baseApply_props orc (logEvent st r (some step) ⟨resumeEventKind .dial, false⟩) r step (SessOK_logEvent _ _ _ h)
    exact key _ hb.1 hb.2.1 hb.2.2
  | expiration =>
    have h1 : SessOK (logEvent { st with s := exitRun st.s r .expired } r (some step) ⟨resumeEventKind .expiration, false⟩).s :=
      SessOK_logEvent _ _ _ (SessOK_exitRun r h (Or.inr (Or.inr rfl)))
    have hb := baseApply_props orc _ r step h1
    exact key _ hb.1 hb.2.1 hb.2.2

theorem resume_post (a : Assets) (o : Opts) (orc : Oracle) (s : Session) (k : ResumeKind)
    (h : SessOK s) (hp : s.pushed = none) : LoopPost (resume a o orc s k) := by
  unfold resume
  simp only
  have hfs : ∀ w, LoopPost (.ok (failSession ⟨s, []⟩ w)) := fun w => failSession_post w h hp
  split
  · trivial
  · split
    · trivial
    · rename_i w _
      split
      · exact hfs w
      · split
        · exact hfs w
        · split
          · exact hfs w
          · rename_i step node _
            split
            · exact hfs w
            · split
              · trivial
              · have ha := applyResume_props orc ⟨{ s with status := .active }, []⟩ w step k h
                have hf := findResumeExit_post a orc (applyResume orc ⟨{ s with status := .active }, []⟩ w step k) w ha.1
                split
                · rename_i st' heq
                  rw [heq] at hf; simp only [FindPost] at hf
                  exact failSession_post w hf.1 (by rw [hf.2.2, ha.2.1]; exact hp)
                · trivial
                · rename_i st' e heq
                  rw [heq] at hf; simp only [FindPost] at hf
                  apply loop_post
                  refine ⟨hf.1, ?_, fun he => ⟨?_, w, rfl, hf.2.2.2 he⟩⟩
                  · rw [hf.2.1, ha.2.2]; simp
                  · rw [hf.2.2.1, ha.2.1]; exact hp

end GoflowModel.Engine
