/-
Slice expressions on texts in built-in functions and router tests, with the guards that come before
them (`HasBeginning` in flows/routers/cases/tests.go, `ReadChars` in excellent/functions/builtin.go).
Lengths of Go strings are byte counts; `val.Length()` of an `XText` is a count of characters.
-/
namespace GoflowModel.SliceGuards

/-- `HasBeginning`, with `h` and `p` the byte lengths of the trimmed text and of the trimmed beginning:
`none` = no match is returned before anything is sliced, `some e` = `hayStack[:e]` is taken -/
def beginningEnd (h p : Nat) : Option Nat :=
  if h = 0 ∨ p = 0 then none else if h < p then none else some p

/-- the same with the length test made on character counts (`hr`, `pr`) — what a "unicode fix" of the guard would be -/
def beginningEndByRunes (hr pr p : Nat) : Option Nat :=
  if hr = 0 ∨ pr = 0 then none else if hr < pr then none else some p

/-- `ReadChars`: the byte ranges `[lo, hi)` sliced out of a text of `runes` characters -/
def readCharsSlices (runes : Nat) : List (Nat × Nat) :=
  if runes % 3 = 0 then (List.range (runes / 3)).map (fun k => (3 * k, 3 * k + 3))
  else if runes % 4 = 0 then (List.range (runes / 4)).map (fun k => (4 * k, 4 * k + 4))
  else []

/-- groups of `n` -/
def chunks (n : Nat) : Nat → List Char → List (List Char)
  | 0, _ => []
  | _, [] => []
  | fuel + 1, s => s.take n :: chunks n fuel (s.drop n)

def spaced (cs : List Char) : List Char := (cs.map fun c => [c]).intersperse [' '] |>.flatten

/-- `ReadChars` on a text of ASCII characters (bytes and characters coincide): the text it returns -/
def readCharsAscii (s : List Char) : List Char :=
  let s := s.dropWhile (· == '+')
  let n := s.length
  if n % 3 = 0 then ((chunks 3 n s).map spaced).intersperse " , ".toList |>.flatten
  else if n % 4 = 0 then ((chunks 4 n s).map spaced).intersperse " , ".toList |>.flatten
  else (s.map fun c => [c]).intersperse " , ".toList |>.flatten

/-! ### numbers written with an exponent

`decimal.NewFromString` reads `<digits>[.<digits>][e<exponent>]` as a coefficient and the exponent `e - (number of fraction
digits)`.  The two places that read numbers this way refuse an exponent beyond a limit, because the cost of comparing,
computing with and rendering such a number grows with it: contact queries (`contactql.Condition.ValueAsNumber`, ±1000) and
JSON (`types.JSONToXValue`, ±10000). -/

def decimalExponent (fractionDigits : Nat) (e : Int) : Int := e - fractionDigits

def queryNumberOk (fractionDigits : Nat) (e : Int) : Bool :=
  decide (-1000 ≤ decimalExponent fractionDigits e ∧ decimalExponent fractionDigits e ≤ 1000)

def jsonNumberOk (fractionDigits : Nat) (e : Int) : Bool :=
  decide (-10000 ≤ decimalExponent fractionDigits e ∧ decimalExponent fractionDigits e ≤ 10000)

end GoflowModel.SliceGuards
