import GoflowModel.Basic.Quote
import GoflowModel.Basic.Tables
import GoflowModel.Basic.Dec
/-
The Excellent expression language: syntax tree (`excellent/tree.go`), the parser that ANTLR
generates from `antlr/Excellent3.g4` written as a precedence-climbing recursive descent over the
token stream, and the printer (`String()` of each node).

ANTLR's treatment of the left-recursive `expression` rule: alternatives are numbered 1…14 in the
order written; a binary alternative `i` gets precedence `15 - i` (`^` 12, `* /` 11, `+ -` 10,
comparisons 9, `= !=` 8, `&` 7), is left associative (its right operand is parsed at one level
higher), and applies while the caller's level is not higher than its own; the operand of the
prefix alternative `-` is parsed at level 13, the body of an anonymous function (alternative 9) at
level 6; primaries (atoms, prefix forms, literals) are allowed at any level.  `atom` is its own
left-recursive rule whose suffixes — call, dot lookup, index — always apply.
-/
namespace GoflowModel.Expr

inductive BinOp where
  | exp | mul | div | add | sub | lt | lte | gte | gt | eq | neq | amp
deriving DecidableEq, Repr

def BinOp.prec : BinOp → Nat
  | .exp => 12
  | .mul | .div => 11
  | .add | .sub => 10
  | .lt | .lte | .gte | .gt => 9
  | .eq | .neq => 8
  | .amp => 7

def BinOp.text : BinOp → List Char
  | .exp => ['^'] | .mul => ['*'] | .div => ['/'] | .add => ['+'] | .sub => ['-']
  | .lt => ['<'] | .lte => ['<', '='] | .gte => ['>', '='] | .gt => ['>'] | .eq => ['='] | .neq => ['!', '='] | .amp => ['&']

inductive Tok where
  | comma | lparen | rparen | lbrack | rbrack | dot | arrow
  | op (o : BinOp)            -- MINUS is `op .sub`
  | text (raw : List Char)    -- with its quotes
  | int (s : List Char)
  | dec (s : List Char)
  | tru | fls | null
  | name (s : List Char)
  | error
deriving DecidableEq, Repr

mutual
  inductive Expr where
    | ref (name : List Char)
    | dot (c : Expr) (lookup : List Char)
    | idx (c : Expr) (e : Expr)
    | call (f : Expr) (ps : Args)
    | lam (args : List (List Char)) (body : Expr)
    | bin (o : BinOp) (l r : Expr)
    | neg (e : Expr)
    | paren (e : Expr)
    | text (value : List Char)       -- unquoted
    | num (rendered : List Char)     -- as the number renders
    | bool (b : Bool)
    | null
  inductive Args where
    | nil
    | cons (e : Expr) (rest : Args)
end

/-! ### parser -/

/-- `(a, b) =>` at the head of the input: the argument names and what follows the arrow -/
def lamHead : List Tok → Option (List (List Char) × List Tok)
  | .lparen :: .name a :: rest =>
    let rec names (acc : List (List Char)) : List Tok → Option (List (List Char) × List Tok)
      | .comma :: .name b :: r => names (acc ++ [b]) r
      | .rparen :: .arrow :: r => some (acc, r)
      | _ => none
    names [a] rest
  | _ => none

/-- `RequireXNumberFromString` then `Describe`: the coefficient has no leading zeros (`big.Int`) -/
def numValue (s : List Char) : List Char :=
  match Dec.parse s with
  | some d =>
    let ds := Dec.trimLeadingZeros d.digits
    Dec.render { d with digits := if ds = [] then ['0'] else ds }
  | none => s

mutual
  /-- `expression[p]` -/
  def parseExpr : Nat → Nat → List Tok → Option (Expr × List Tok)
    | 0, _, _ => none
    | fuel + 1, p, ts =>
      match parsePrimary fuel ts with
      | none => none
      | some (l, rest) => parseOps fuel p l rest

  /-- the operator loop of `expression[p]` with `l` parsed so far -/
  def parseOps : Nat → Nat → Expr → List Tok → Option (Expr × List Tok)
    | 0, _, _, _ => none
    | fuel + 1, p, l, ts =>
      match ts with
      | .op o :: rest =>
        if p ≤ o.prec then
          match parseExpr fuel (o.prec + 1) rest with
          | none => none
          | some (r, rest') => parseOps fuel p (.bin o l r) rest'
        else some (l, ts)
      | _ => some (l, ts)

  /-- the alternatives of `expression` that do not start with an expression -/
  def parsePrimary : Nat → List Tok → Option (Expr × List Tok)
    | 0, _ => none
    | fuel + 1, ts =>
      match ts with
      | .op .sub :: rest =>
        match parseExpr fuel 13 rest with
        | none => none
        | some (e, rest') => some (.neg e, rest')
      | .text raw :: rest =>
        match Quote.literalValue raw with
        | some v => some (.text v, rest)
        | none => none
      | .int s :: rest => some (.num (numValue s), rest)
      | .dec s :: rest => some (.num (numValue s), rest)
      | .tru :: rest => some (.bool true, rest)
      | .fls :: rest => some (.bool false, rest)
      | .null :: rest => some (.null, rest)
      | _ =>
        match lamHead ts with
        | some (args, rest) =>
          match parseExpr fuel 6 rest with
          | none => none
          | some (b, rest') => some (.lam args b, rest')
        | none => parseAtom fuel ts

  /-- `atom` -/
  def parseAtom : Nat → List Tok → Option (Expr × List Tok)
    | 0, _ => none
    | fuel + 1, ts =>
      match ts with
      | .name n :: rest => parseSuffix fuel (.ref n) rest
      | .lparen :: rest =>
        match parseExpr fuel 0 rest with
        | some (e, .rparen :: rest') => parseSuffix fuel (.paren e) rest'
        | _ => none
      | _ => none

  /-- the suffix loop of `atom` -/
  def parseSuffix : Nat → Expr → List Tok → Option (Expr × List Tok)
    | 0, _, _ => none
    | fuel + 1, a, ts =>
      match ts with
      | .dot :: .name n :: rest => parseSuffix fuel (.dot a n) rest
      | .dot :: .int n :: rest => parseSuffix fuel (.dot a n) rest
      | .lbrack :: rest =>
        match parseExpr fuel 0 rest with
        | some (e, .rbrack :: rest') => parseSuffix fuel (.idx a e) rest'
        | _ => none
      | .lparen :: .rparen :: rest => parseSuffix fuel (.call a .nil) rest
      | .lparen :: rest =>
        match parseArgs fuel rest with
        | some (ps, .rparen :: rest') => parseSuffix fuel (.call a ps) rest'
        | _ => none
      | _ => some (a, ts)

  /-- `parameters` -/
  def parseArgs : Nat → List Tok → Option (Args × List Tok)
    | 0, _ => none
    | fuel + 1, ts =>
      match parseExpr fuel 0 ts with
      | none => none
      | some (e, .comma :: rest) =>
        match parseArgs fuel rest with
        | none => none
        | some (more, rest') => some (.cons e more, rest')
      | some (e, rest) => some (.cons e .nil, rest)
end

/-- `parse: expression EOF` -/
def parse (ts : List Tok) : Option Expr :=
  if ts.contains .error then none
  else
    match parseExpr (4 * ts.length + 8) 0 ts with
    | some (e, []) => some e
    | _ => none

/-! ### printer -/

/-- `strings.ToLower` on names; ASCII letters only in the model (the correspondence generates non-ASCII names in lower case) -/
def lowerName (s : List Char) : List Char := s.map Char.toLower

/-- `a, b, c` as tokens -/
def nameToks : List (List Char) → List Tok
  | [] => []
  | [a] => [.name a]
  | a :: rest => .name a :: .comma :: nameToks rest

def isAllDigits (s : List Char) : Bool := s ≠ [] ∧ s.all fun c => decide ('0' ≤ c) && decide (c ≤ '9')

mutual
  /-- the tokens of `String()` -/
  def toks : Expr → List Tok
    | .ref n => [.name (lowerName n)]
    | .dot c l => toks c ++ [.dot, if isAllDigits l then .int l else .name l]
    | .idx c e => toks c ++ [.lbrack] ++ toks e ++ [.rbrack]
    | .call f ps => toks f ++ [.lparen] ++ argToks ps ++ [.rparen]
    | .lam args b => Tok.lparen :: (nameToks args ++ (Tok.rparen :: Tok.arrow :: toks b))
    | .bin o l r => toks l ++ [.op o] ++ toks r
    | .neg e => .op .sub :: toks e
    | .paren e => [.lparen] ++ toks e ++ [.rparen]
    | .text v => [.text (Quote.quote Tables.isPrint v)]
    | .num s => [if s.contains '.' then .dec s else .int s]
    | .bool true => [.tru]
    | .bool false => [.fls]
    | .null => [.null]
  def argToks : Args → List Tok
    | .nil => []
    | .cons e .nil => toks e
    | .cons e rest => toks e ++ [.comma] ++ argToks rest
end

mutual
  /-- `String()` -/
  def render : Expr → List Char
    | .ref n => lowerName n
    | .dot c l =>
      match c with
      | .dot _ l' => if isAllDigits l' && isAllDigits l then render c ++ ' ' :: '.' :: l else render c ++ '.' :: l
      | _ => render c ++ '.' :: l
    | .idx c e => render c ++ '[' :: render e ++ [']']
    | .call f ps => render f ++ '(' :: renderArgs ps ++ [')']
    | .lam args b => '(' :: ((args.intersperse [',', ' ']).flatten) ++ ")".toList ++ " => ".toList ++ render b
    | .bin o l r => render l ++ ' ' :: o.text ++ ' ' :: render r
    | .neg e => '-' :: render e
    | .paren e => '(' :: render e ++ [')']
    | .text v => Quote.quote Tables.isPrint v
    | .num s => s
    | .bool true => "true".toList
    | .bool false => "false".toList
    | .null => "null".toList
  def renderArgs : Args → List Char
    | .nil => []
    | .cons e .nil => render e
    | .cons e rest => render e ++ ',' :: ' ' :: renderArgs rest
end

/-! ### renaming of context references (`refactor.ContextRefRename`) -/

mutual
  def rename (src dst : List Char) : Expr → Expr
    | .ref n => if lowerName n = lowerName src then .ref dst else .ref n
    | .dot c l => .dot (rename src dst c) l
    | .idx c e => .idx (rename src dst c) (rename src dst e)
    | .call f ps => .call (rename src dst f) (renameArgs src dst ps)
    | .lam args b =>
      -- a parameter of the same name rebinds it: references in the body are to the parameter
      if args.any (fun a => lowerName a == lowerName src) then .lam args b else .lam args (rename src dst b)
    | .bin o l r => .bin o (rename src dst l) (rename src dst r)
    | .neg e => .neg (rename src dst e)
    | .paren e => .paren (rename src dst e)
    | e => e
  def renameArgs (src dst : List Char) : Args → Args
    | .nil => .nil
    | .cons e rest => .cons (rename src dst e) (renameArgs src dst rest)
end

end GoflowModel.Expr
