/-
The ANTLR lexer rule shared by Excellent3 `TEXT` and ContactQL `STRING`:

    '"' (~["] | '\\"')* '"'

with ANTLR's longest-match semantics.  A body is in `(~["] | '\\"')*` exactly when every `"`
in it is immediately preceded by a backslash character, so the token ends at the first `"`
that is *not* preceded by a backslash, or — if every later `"` is so preceded — at the last `"`.
-/
namespace GoflowModel.LexText

/-- input after the opening quote.  Returns the number of runes (body + closing quote) the
token consumes after the opening quote, or `none` when no `TEXT` token starts here. -/
def textEnd : List Char → (prevBS : Bool) → (pos : Nat) → (best : Option Nat) → Option Nat
  | [], _, _, best => best
  | c :: r, prevBS, pos, best =>
    if c = '"' then
      if prevBS then textEnd r false (pos + 1) (some (pos + 1))
      else some (pos + 1)
    else textEnd r (c = '\\') (pos + 1) best

/-- whole-token view: `inp` starts with the opening quote; returns (token, rest) -/
def lexText : List Char → Option (List Char × List Char)
  | '"' :: r =>
    match textEnd r false 0 none with
    | some n => some ('"' :: r.take n, r.drop n)
    | none => none
  | _ => none

/-- The regular language of the rule, as an inductive predicate on the *body* (between the
quotes): a sequence of units, each a non-quote rune or the pair backslash-quote. -/
inductive Body : List Char → Prop
  | nil : Body []
  | plain (c : Char) (r : List Char) : c ≠ '"' → Body r → Body (c :: r)
  | esc (r : List Char) : Body r → Body ('\\' :: '"' :: r)

end GoflowModel.LexText
