import GoflowModel.Lemmas.ExprParse
/-
Migration of legacy (Excel-style) expressions, operator core: references, numbers, booleans,
negation, parentheses, the binary operators that migrate to themselves, and the legacy functions
that migrate to *operator expressions* — `SUM(a, b, …)` → `a + b + …`, `CONCATENATE(…)` → `… & …`,
`POWER(a, b)` → `a ^ b`, `EXP(a)` → `2.718281828459045 ^ a`.

`flows/definition/legacy/expressions` builds the migrated expression as text: every operand is
substituted into its position with `operand(text, level)`, which wraps it in parentheses when
the top-most operator of the (parsed) operand binds less tightly than the position.  The model
does the same on trees (`wrapTo`), which is the same thing because the operand texts are
printings of these trees.
-/
namespace GoflowModel.Legacy
open GoflowModel.Expr

mutual
  inductive L where
    | ref (migrated : List Char)        -- a context reference, already mapped to its new name
    | num (s : List Char)
    | bool (b : Bool)
    | neg (e : L)
    | paren (e : L)
    | bin (o : BinOp) (l r : L)
    | sum (args : LArgs)
    | concat (args : LArgs)
    | power (a b : L)
    | exp (a : L)
  inductive LArgs where
    | one (e : L)
    | cons (e : L) (rest : LArgs)
end

/-- `operand(expression, level)` -/
def wrapTo (lvl : Nat) (e : Expr) : Expr := if level e < lvl then .paren e else e

def eConst : List Char := "2.718281828459045".toList

mutual
  /-- the migration, on trees -/
  def migE : L → Expr
    | .ref n => .ref n
    | .num s => .num s
    | .bool b => .bool b
    | .neg e => .neg (wrapTo 13 (migE e))
    | .paren e => .paren (migE e)
    | .bin o l r => .bin o (wrapTo o.prec (migE l)) (wrapTo (o.prec + 1) (migE r))
    | .sum args => joinE .add args
    | .concat args => joinE .amp args
    | .power a b => .bin .exp (wrapTo 12 (migE a)) (wrapTo 13 (migE b))
    | .exp a => .bin .exp (.num eConst) (wrapTo 13 (migE a))
  /-- `asJoin`: the first operand at the operator's level, the others one above, chained to the left -/
  def joinE (o : BinOp) : LArgs → Expr
    | .one e => wrapTo o.prec (migE e)
    | .cons e rest => joinRest o (wrapTo o.prec (migE e)) rest
  def joinRest (o : BinOp) (acc : Expr) : LArgs → Expr
    | .one e => .bin o acc (wrapTo (o.prec + 1) (migE e))
    | .cons e rest => joinRest o (.bin o acc (wrapTo (o.prec + 1) (migE e))) rest
end

mutual
  /-- the migration as it was before the repair: operands substituted as they are -/
  def migNaive : L → Expr
    | .ref n => .ref n
    | .num s => .num s
    | .bool b => .bool b
    | .neg e => .neg (migNaive e)
    | .paren e => .paren (migNaive e)
    | .bin o l r => .bin o (migNaive l) (migNaive r)
    | .sum args => joinNaive .add args
    | .concat args => joinNaive .amp args
    | .power a b => .bin .exp (migNaive a) (migNaive b)
    | .exp a => .bin .exp (.num eConst) (migNaive a)
  def joinNaive (o : BinOp) : LArgs → Expr
    | .one e => migNaive e
    | .cons e rest => joinNaiveRest o (migNaive e) rest
  def joinNaiveRest (o : BinOp) (acc : Expr) : LArgs → Expr
    | .one e => .bin o acc (migNaive e)
    | .cons e rest => joinNaiveRest o (.bin o acc (migNaive e)) rest
end

mutual
  /-- what the legacy expression denotes: the same operators on the same operands in the same
  grouping and order, no parentheses needed because it is a tree -/
  def sem : L → Expr
    | .ref n => .ref n
    | .num s => .num s
    | .bool b => .bool b
    | .neg e => .neg (sem e)
    | .paren e => sem e
    | .bin o l r => .bin o (sem l) (sem r)
    | .sum args => semJoin .add args
    | .concat args => semJoin .amp args
    | .power a b => .bin .exp (sem a) (sem b)
    | .exp a => .bin .exp (.num eConst) (sem a)
  def semJoin (o : BinOp) : LArgs → Expr
    | .one e => sem e
    | .cons e rest => semRest o (sem e) rest
  def semRest (o : BinOp) (acc : Expr) : LArgs → Expr
    | .one e => .bin o acc (sem e)
    | .cons e rest => semRest o (.bin o acc (sem e)) rest
end

mutual
  /-- parentheses do not matter to the value -/
  def strip : Expr → Expr
    | .paren e => strip e
    | .dot c l => .dot (strip c) l
    | .idx c e => .idx (strip c) (strip e)
    | .call f ps => .call (strip f) (stripArgs ps)
    | .lam args b => .lam args (strip b)
    | .bin o l r => .bin o (strip l) (strip r)
    | .neg e => .neg (strip e)
    | e => e
  def stripArgs : Args → Args
    | .nil => .nil
    | .cons e rest => .cons (strip e) (stripArgs rest)
end

/-- a rendering that shows the grouping: every binary node in parentheses -/
def grouped : Expr → List Char
  | .bin o l r => '(' :: grouped l ++ ' ' :: o.text ++ ' ' :: grouped r ++ [')']
  | .neg e => '-' :: grouped e
  | .paren e => grouped e
  | e => render e

mutual
  /-- names as the mapping produces them (lower case) and numbers as they render -/
  def LWF : L → Prop
    | .ref n => lowerName n = n
    | .num s => numValue s = s
    | .bool _ => True
    | .neg e => LWF e
    | .paren e => LWF e
    | .bin _ l r => LWF l ∧ LWF r
    | .sum args => LWFArgs args
    | .concat args => LWFArgs args
    | .power a b => LWF a ∧ LWF b
    | .exp a => LWF a
  def LWFArgs : LArgs → Prop
    | .one e => LWF e
    | .cons e rest => LWF e ∧ LWFArgs rest
end

end GoflowModel.Legacy
