import GoflowModel.Basic.Quote
import GoflowModel.Excellent.Scanner
import GoflowModel.Excellent.LexText
/-
The literal fragment of template evaluation (`Evaluator.Template`): BODY tokens are copied,
and an expression that consists of exactly one `TEXT` token evaluates to the token's literal
value (`VisitTextLiteral` → `XText` → `Render`).  Anything else is outside this fragment
(`none`); the full evaluator is modelled separately.
-/
namespace GoflowModel.Template
open GoflowModel

def evalLiteralExpr (e : List Char) : Option (List Char) :=
  match LexText.lexText e with
  | some (tok, []) => Quote.literalValue tok
  | _ => none

def evalLiteralTokens : List Scanner.Token → Option (List Char)
  | [] => some []
  | t :: ts =>
    match t.kind with
    | .body => (evalLiteralTokens ts).map (t.text ++ ·)
    | .expression =>
      match evalLiteralExpr t.text, evalLiteralTokens ts with
      | some v, some r => some (v ++ r)
      | _, _ => none
    | .identifier => none

def evalLiteralTemplate (cfg : Scanner.Cfg) (tpl : List Char) : Option (List Char) :=
  evalLiteralTokens (Scanner.scanAll cfg tpl)

end GoflowModel.Template
