/-
Transcription of the hand-written template scanner `excellent/scanner.go`
(`Scan`, `scanBody`, `scanIdentifier`, `scanExpression`, `readTextLiteral`) as structural
recursion over the remaining input.  The Go code reads runes with a 4-slot unread buffer; an
`unread` is modelled by simply not consuming.  NUL is excluded from inputs (it is the Go
scanner's in-band EOF marker; the properties quantify over strings without NUL).

`nc : Char → Bool` is `isNameChar` (`unicode.IsLetter || unicode.IsNumber || '_'`), a
parameter; `lower` is `strings.ToLower` on the top-level name, also a parameter.
-/
namespace GoflowModel.Scanner

inductive Kind where
  | body | identifier | expression
deriving Repr, DecidableEq, Inhabited

structure Token where
  kind : Kind
  text : List Char
deriving Repr, DecidableEq, Inhabited

/-- `readTextLiteral`: input is positioned after the opening quote; returns (consumed, rest).
`escaped` is set by *any* backslash and cleared by any other rune — it does not toggle. -/
def readLit : List Char → Bool → List Char × List Char
  | [], _ => ([], [])
  | c :: r, escaped =>
    if c = '"' ∧ ¬ escaped then ([c], r)
    else
      let x := readLit r (c = '\\')
      (c :: x.1, x.2)

/-- `scanExpression` after `@(`: returns (buffer, closed?, rest).  `fuel` bounds the number of
loop iterations; `input.length + 1` always suffices (see `scanExpr_fuel`). -/
def scanExprAux : Nat → List Char → Nat → List Char × Bool × List Char
  | 0, inp, _ => ([], false, inp)
  | _ + 1, [], _ => ([], false, [])
  | fuel + 1, c :: r, parens =>
    if c = '"' then
      let lit := readLit r false
      let x := scanExprAux fuel lit.2 parens
      (c :: (lit.1 ++ x.1), x.2.1, x.2.2)
    else if c = '(' then
      let x := scanExprAux fuel r (parens + 1)
      (c :: x.1, x.2.1, x.2.2)
    else if c = ')' then
      if parens = 1 then ([], true, r)
      else
        let x := scanExprAux fuel r (parens - 1)
        (c :: x.1, x.2.1, x.2.2)
    else
      let x := scanExprAux fuel r parens
      (c :: x.1, x.2.1, x.2.2)

def scanExpr (inp : List Char) : List Char × Bool × List Char :=
  scanExprAux (inp.length + 1) inp 1

/-- `scanIdentifier` main loop: input positioned after `@`; returns (identifier, rest). -/
def scanIdentAux (nc : Char → Bool) : List Char → List Char × List Char
  | [] => ([], [])
  | [c] => if c ≠ '.' ∧ nc c then ([c], []) else ([], [c])
  | c :: d :: r =>
    if c = '.' then
      if nc d then
        let x := scanIdentAux nc r
        (c :: d :: x.1, x.2)
      else ([], c :: d :: r)
    else if nc c then
      let x := scanIdentAux nc (d :: r)
      (c :: x.1, x.2)
    else ([], c :: d :: r)

/-- the part of an identifier before its first period -/
def topLevelOf (ident : List Char) : List Char := ident.takeWhile (· ≠ '.')

/-- `scanBody`: returns (body text, rest) where rest is empty or starts an expression/identifier -/
def scanBodyAux (nc : Char → Bool) (unesc : Bool) : List Char → List Char × List Char
  | [] => ([], [])
  | [c] => ([c], [])
  | c :: d :: r =>
    if c = '@' then
      if d = '(' then ([], c :: d :: r)
      else if d = '@' then
        let x := scanBodyAux nc unesc r
        (if unesc then '@' :: x.1 else '@' :: '@' :: x.1, x.2)
      else if nc d then ([], c :: d :: r)
      else
        let x := scanBodyAux nc unesc r
        ('@' :: d :: x.1, x.2)
    else
      let x := scanBodyAux nc unesc (d :: r)
      (c :: x.1, x.2)

structure Cfg where
  nc : Char → Bool
  lower : List Char → List Char
  /-- allowed top levels; `none` = any identifier -/
  tops : Option (List (List Char))
  unesc : Bool

def Cfg.allowed (cfg : Cfg) (top : List Char) : Bool :=
  match cfg.tops with
  | none => true
  | some ts => ts.contains top

/-- One call of `Scan()`: next token and the remaining input; `none` = EOF. -/
def scanOne (cfg : Cfg) : List Char → Option (Token × List Char)
  | [] => none
  | '@' :: '(' :: r =>
    let x := scanExpr r
    if x.2.1 then some (⟨.expression, x.1⟩, x.2.2)
    else some (⟨.body, '@' :: '(' :: x.1⟩, x.2.2)
  | '@' :: d :: r =>
    if d ≠ '@' ∧ cfg.nc d then
      let x := scanIdentAux cfg.nc (d :: r)
      if cfg.allowed (cfg.lower (topLevelOf x.1)) then some (⟨.identifier, x.1⟩, x.2)
      else some (⟨.body, '@' :: x.1⟩, x.2)
    else
      let x := scanBodyAux cfg.nc cfg.unesc ('@' :: d :: r)
      some (⟨.body, x.1⟩, x.2)
  | inp =>
    let x := scanBodyAux cfg.nc cfg.unesc inp
    some (⟨.body, x.1⟩, x.2)

/-- All tokens of a template.  Every `scanOne` consumes at least one rune, so `inp.length`
calls suffice (`scanAll_fuel`). -/
def scanAllAux (cfg : Cfg) : Nat → List Char → List Token
  | 0, _ => []
  | fuel + 1, inp =>
    match scanOne cfg inp with
    | none => []
    | some (t, rest) => t :: scanAllAux cfg fuel rest

def scanAll (cfg : Cfg) (inp : List Char) : List Token := scanAllAux cfg (inp.length + 1) inp

/-- the source text a token stands for -/
def Token.render : Token → List Char
  | ⟨.body, t⟩ => t
  | ⟨.identifier, t⟩ => '@' :: t
  | ⟨.expression, t⟩ => '@' :: '(' :: (t ++ [')'])

end GoflowModel.Scanner
