/-
The guards that make expression evaluation total (after the repairs): the bound on the exponent
operator, on the output of `repeat`, on the places of the rounding functions, and the bookkeeping
of anonymous-function calls (nesting depth and total count per evaluation).
-/
namespace GoflowModel.Guards

def maxExponent : Nat := 10000
def maxRepeatOutput : Nat := 10000000
def maxRoundingPlaces : Nat := 1000
def maxDepth : Nat := 100
def maxCalls : Nat := 100000

/-- `Exponent`: the exponent's magnitude (its integer part decides) -/
def exponentOk (e : Int) : Bool := e.natAbs ≤ maxExponent

/-- `Repeat(text, count)` on a text of `len` bytes: the length of the result, or an error -/
def repeatLen (len : Nat) (count : Int) : Option Nat :=
  if count < 0 then none
  else if count > 0 ∧ len > maxRepeatOutput / count.toNat then none
  else some (len * count.toNat)

/-- `checkRoundingPlaces` -/
def placesOk (places : Int) : Bool := decide (-(maxRoundingPlaces : Int) ≤ places) && decide (places ≤ maxRoundingPlaces)

/-- Go's `int32(places)` -/
def toInt32 (p : Int) : Int := (p + 2147483648) % 4294967296 - 2147483648

/-! ### anonymous-function calls -/

structure Calls where
  depth : Nat
  count : Nat
deriving Repr, DecidableEq

inductive Ev where
  | enter    -- a call of an anonymous function is attempted
  | leave    -- a call that went ahead returns
deriving Repr, DecidableEq

/-- the closure's prologue and its deferred epilogue; `true` = the call went ahead -/
def step (s : Calls) : Ev → Calls × Bool
  | .enter => if s.depth ≥ maxDepth ∨ s.count ≥ maxCalls then (s, false) else (⟨s.depth + 1, s.count + 1⟩, true)
  | .leave => (⟨s.depth - 1, s.count⟩, true)

/-- run a history of events; returns the final counters and how many calls went ahead -/
def run : Calls → List Ev → Calls × Nat
  | s, [] => (s, 0)
  | s, e :: es =>
    let r := step s e
    let rest := run r.1 es
    (rest.1, (if e = .enter ∧ r.2 then 1 else 0) + rest.2)

/-! ### slice bounds of the word and field functions

What the built-ins index a slice of `n` words / fields with, as the guards in front of the indexing
leave it: `none` = an error value or the empty text is returned before any indexing. -/

/-- `Word(text, index)`: the offset `words[offset]` is read at -/
def wordOffset (n : Nat) (index : Int) : Option Int :=
  let offset := if index < 0 then index + n else index
  if 0 ≤ offset ∧ offset < n then some offset else none

/-- `WordSlice(text, start, end)` (`end = -1` when not given): the bounds of `words[lo:hi]` -/
def wordSliceBounds (n : Nat) (start stop : Int) : Option (Int × Int) :=
  if start < 0 then none
  else if stop > 0 ∧ stop ≤ start then none
  else if start ≥ n then none
  else
    let stop := if stop ≥ n then (n : Int) else stop
    if stop > 0 then some (start, stop) else some (start, n)

/-- `Field(text, index, separator)`: the index `fields[index]` is read at -/
def fieldIndex (n : Nat) (index : Int) : Option Int :=
  if index < 0 then none else if index ≥ n then none else some index

end GoflowModel.Guards
