import GoflowModel.Excellent.LegacyFull
/-
`MigrateContextReference` (flows/definition/legacy/expressions/context.go): the table of regular
expressions that maps a legacy context reference (`contact.tel_e164`, `flow.color.category`,
`step.attachments.0`, `date.today`, `extra.a.1` …) to its new-language form, followed by
`fixLookups` (a lookup that starts with a digit is written `["…"]`).

A reference is its dot-separated segments (lower-cased by the caller, as `strings.ToLower` does
first).  The rules are tried in the order of the table; the model writes each rule's result as the
tree the new parser reads from the replacement text.  The table itself and the URN schemes are
regenerated from the source and pinned in Props/C17.
-/
namespace GoflowModel.LegacyRefs
open GoflowModel.Expr GoflowModel.LegacyFull

abbrev Seg := List Char

def S (s : String) : Seg := s.toList

/-- one lookup, after `fixLookups`: `.1foo` becomes `["1foo"]` -/
def look (c : Expr) (s : Seg) : Expr :=
  match s with
  | d :: _ => if isDig d then .idx c (.text s) else .dot c s
  | [] => .dot c s

/-- a dotted path with `fixLookups` applied -/
def pathOf : List Seg → Expr
  | [] => .ref []
  | r :: ls => ls.foldl look (.ref r)

/-- a dotted path as it is (a reference no rule matches is returned unchanged) -/
def rawPath : List Seg → Expr
  | [] => .ref []
  | r :: ls => ls.foldl Expr.dot (.ref r)

def fn (name : String) (args : List Expr) : Expr := fnCall name args

def fixedContact : List Seg := [S "uuid", S "id", S "name", S "first_name", S "created_on", S "language"]

/-- the rules for `[flow.|step.][parent.|child.]contact…`; `pfx` is the `parent` / `child` part -/
def contactRule (schemes : List Seg) (pfx : List Seg) : List Seg → Option Expr
  | [] => some (pathOf (pfx ++ [S "contact"]))
  | [w] =>
    if w ∈ fixedContact then some (pathOf (pfx ++ [S "contact", w]))
    else if w = S "groups" then some (fn "join" [pathOf (pfx ++ [S "contact", S "groups"]), .text [',']])
    else if w = S "tel_e164" then
      some (fn "default" [.dot (fn "urn_parts" [pathOf (pfx ++ [S "urns", S "tel"])]) (S "path"), .text []])
    else if w = S "tel" then some (fn "format_urn" [pathOf (pfx ++ [S "urns", S "tel"])])
    else if w ∈ schemes then
      some (fn "default" [.dot (fn "urn_parts" [pathOf (pfx ++ [S "urns", w])]) (S "path"), .text []])
    else some (pathOf (pfx ++ [S "fields", w]))
  | [s, p] =>
    if s ∈ schemes then
      if p = S "display" then some (fn "format_urn" [pathOf (pfx ++ [S "urns", s])])
      else if p = S "path" then some (.dot (fn "urn_parts" [pathOf (pfx ++ [S "urns", s])]) (S "path"))
      else if p = S "scheme" then some (.dot (fn "urn_parts" [pathOf (pfx ++ [S "urns", s])]) (S "scheme"))
      else if p = S "urn" then some (pathOf (pfx ++ [S "urns", s]))
      else none
    else none
  | _ => none

/-- the `contact` group of rules on the whole reference -/
def contactGroup (schemes : List Seg) (segs : List Seg) : Option Expr :=
  let s1 := match segs with
    | h :: t => if h = S "flow" ∨ h = S "step" then t else segs
    | [] => segs
  match s1 with
  | h :: c :: rest =>
    if (h = S "parent" ∨ h = S "child") ∧ c = S "contact" then contactRule schemes [h] rest
    else if h = S "contact" then contactRule schemes [] (c :: rest)
    else none
  | [h] => if h = S "contact" then contactRule schemes [] [] else none
  | [] => none

/-- `results`-like rules: `X`, `X.name`, `X.name.(value|category|text|time)` under the new root `root` -/
def resultsRule (root : List Seg) : List Seg → Option Expr
  | [] => some (pathOf root)
  | [w] => some (pathOf (root ++ [w]))
  | [w, p] =>
    if p = S "value" then some (pathOf (root ++ [w, S "value"]))
    else if p = S "category" then some (pathOf (root ++ [w, S "category_localized"]))
    else if p = S "text" then some (pathOf (root ++ [w, S "input"]))
    else if p = S "time" then some (pathOf (root ++ [w, S "created_on"]))
    else none
  | _ => none

def isDigits (s : Seg) : Bool := !s.isEmpty && s.all isDig

def dated (rawDates : Bool) (e : Expr) : Expr := if rawDates then e else fn "format_date" [e]

/-- `extra`, `extra.…` (after `extra.flow…`, which belongs to the parent's results) -/
def extraRule (rest : List Seg) : Option Expr :=
  match rest with
  | f :: rest' =>
    if f = S "flow" then
      (match resultsRule [S "parent", S "results"] rest' with
        | some e => some e
        | none => some (pathOf (S "legacy_extra" :: rest)))
    else some (pathOf (S "legacy_extra" :: rest))
  | [] => some (pathOf [S "legacy_extra"])

def stepRule : List Seg → Option Expr
  | [] => some (pathOf [S "input"])
  | [p] =>
    if p = S "value" then some (pathOf [S "input"])
    else if p = S "text" then some (pathOf [S "input", S "text"])
    else if p = S "time" then some (pathOf [S "input", S "created_on"])
    else if p = S "attachments" then
      some (fn "foreach" [fn "foreach" [pathOf [S "input", S "attachments"], .ref (S "attachment_parts")], .ref (S "extract"), .text (S "url")])
    else none
  | [p, d] =>
    if p = S "attachments" ∧ isDigits d then
      some (.dot (fn "attachment_parts" [.idx (pathOf [S "input", S "attachments"]) (.num d)]) (S "url"))
    else none
  | _ => none

def channelRule : List Seg → Option Expr
  | [] => some (pathOf [S "contact", S "channel", S "address"])
  | [p] =>
    if p = S "address" ∨ p = S "tel" ∨ p = S "tel_e164" then some (pathOf [S "contact", S "channel", S "address"])
    else if p = S "name" then some (pathOf [S "contact", S "channel", S "name"])
    else none
  | _ => none

def dateRule (rawDates : Bool) : List Seg → Option Expr
  | [] => some (fn "now" [])
  | [p] =>
    if p = S "now" then some (fn "now" [])
    else if p = S "today" then some (dated rawDates (fn "today" []))
    else if p = S "tomorrow" then some (dated rawDates (fn "datetime_add" [fn "now" [], .num ['1'], .text ['D']]))
    else if p = S "yesterday" then some (dated rawDates (fn "datetime_add" [fn "now" [], .neg (.num ['1']), .text ['D']]))
    else none
  | _ => none

/-- the rules after the `contact` group, in the order of the table -/
def otherRules (rawDates : Bool) : List Seg → Option Expr
  | h :: rest =>
    if h = S "flow" then resultsRule [S "results"] rest
    else if h = S "child" then resultsRule [S "child", S "results"] rest
    else if h = S "parent" then resultsRule [S "parent", S "results"] rest
    else if h = S "extra" then extraRule rest
    else if h = S "step" then stepRule rest
    else if h = S "channel" then channelRule rest
    else if h = S "date" then dateRule rawDates rest
    else none
  | [] => none

/-- `MigrateContextReference` on the segments of the lower-cased reference -/
def migRef (schemes : List Seg) (rawDates : Bool) (segs : List Seg) : Expr :=
  match contactGroup schemes segs with
  | some e => e
  | none =>
    match otherRules rawDates segs with
    | some e => e
    | none => rawPath segs

end GoflowModel.LegacyRefs
