import GoflowModel.Excellent.Expr
/-
A denotational reading of expression evaluation (`Evaluate` of each node in `excellent/tree.go`)
over an arbitrary value domain: the operators, lookups and calls are parameters (`Sem`), the
structure — scoping of anonymous-function parameters over the context, case-insensitive
resolution of references, evaluation of every operand — is fixed.
-/
namespace GoflowModel.Expr

structure Sem (V : Type) where
  binop : BinOp → V → V → V
  neg : V → V
  dot : V → List Char → V
  idx : V → V → V
  call : V → List V → V
  closure : List (List Char) → (List V → V) → V
  text : List Char → V
  num : List Char → V
  bool : Bool → V
  null : V
  missing : List Char → V

abbrev Env (V : Type) := List Char → Option V

/-- a child scope binding the parameters (resolved ignoring case, like `Scope.Get`) -/
def bindArgs {V : Type} (ρ : Env V) : List (List Char) → List V → Env V
  | a :: as, v :: vs => fun n => if n = lowerName a then some v else bindArgs ρ as vs n
  | _, _ => ρ

mutual
  def eval {V : Type} (S : Sem V) : Env V → Expr → V
    | ρ, .ref n => match ρ (lowerName n) with
      | some v => v
      | none => S.missing (lowerName n)
    | ρ, .dot c l => S.dot (eval S ρ c) l
    | ρ, .idx c e => S.idx (eval S ρ c) (eval S ρ e)
    | ρ, .call f ps => S.call (eval S ρ f) (evalArgs S ρ ps)
    | ρ, .lam args b => S.closure args (fun vs => eval S (bindArgs ρ args vs) b)
    | ρ, .bin o l r => S.binop o (eval S ρ l) (eval S ρ r)
    | ρ, .neg e => S.neg (eval S ρ e)
    | ρ, .paren e => eval S ρ e
    | _, .text v => S.text v
    | _, .num s => S.num s
    | _, .bool b => S.bool b
    | _, .null => S.null
  def evalArgs {V : Type} (S : Sem V) : Env V → Args → List V
    | _, .nil => []
    | ρ, .cons e rest => eval S ρ e :: evalArgs S ρ rest
end

mutual
  /-- the name does not occur in the expression, as a reference or as a parameter -/
  def fresh (d : List Char) : Expr → Prop
    | .ref n => lowerName n ≠ d
    | .dot c _ => fresh d c
    | .idx c e => fresh d c ∧ fresh d e
    | .call f ps => fresh d f ∧ freshArgs d ps
    | .lam args b => (∀ a ∈ args, lowerName a ≠ d) ∧ fresh d b
    | .bin _ l r => fresh d l ∧ fresh d r
    | .neg e => fresh d e
    | .paren e => fresh d e
    | _ => True
  def freshArgs (d : List Char) : Args → Prop
    | .nil => True
    | .cons e rest => fresh d e ∧ freshArgs d rest
end

end GoflowModel.Expr
