import GoflowModel.Lemmas.ExprParseFull
/-
Migration of legacy (Excel-style) expressions — the whole visitor of
`flows/definition/legacy/expressions`: context references (dotted paths), number, text and boolean
literals, negation, parentheses, the binary operators, `+`/`-` in each of the forms the type
inference picks (two numbers, datetime ± days, date ± days, datetime ± time, date + time, the
`legacy_add` fallback), and **function calls through the migration table**: kept or renamed
(`asIs`, `asRename`, unknown functions), joined with an operator (`asJoin`), written through a
template (`asTemplate`, `asOperatorTemplate`) or through per-parameter migrators with defaults
(`asParamMigrators…`: as is, decremented, the `by_spaces` flag).

The Go code assembles text; every operand that lands in an operator position goes through
`operand(text, level)`, which wraps it in parentheses when its top-most operator binds less tightly
than the position.  The model does the same on trees (`wrapTo`); the trees are what the new parser
reads from that text (Props/C17: `migF_parses`).  Which form of `+`/`-` applies is decided by
`inferType` on the operand *texts*; here it is a field of the node (`Kind`) — the theorems hold for
every choice, the correspondence (K:legmigf) checks the choice made.
-/
namespace GoflowModel.LegacyFull
open GoflowModel.Expr GoflowModel.Expr.Full

/-- `operand(expression, level)` -/
def wrapTo (lvl : Nat) (e : Expr) : Expr := if level e < lvl then .paren e else e

/-! ### templates of the migration table -/

mutual
  /-- new-language text with parameter positions; `hole i lvl` is `operand(params[i], lvl)` -/
  inductive T where
    | hole (i : Nat) (lvl : Nat)
    | num (s : List Char)
    | text (v : List Char)
    | bool (b : Bool)
    | null
    | neg (e : T)
    | bin (o : BinOp) (l r : T)
    | call (name : List Char) (args : TArgs)
  inductive TArgs where
    | nil
    | cons (e : T) (rest : TArgs)
end

def getP (ps : List Expr) (i : Nat) : Expr := ps.getD i .null

mutual
  def inst (ps : List Expr) : T → Expr
    | .hole i lvl => wrapTo lvl (getP ps i)
    | .num s => .num s
    | .text v => .text v
    | .bool b => .bool b
    | .null => .null
    | .neg e => .neg (inst ps e)
    | .bin o l r => .bin o (inst ps l) (inst ps r)
    | .call n as => .call (.ref n) (instArgs ps as)
  def instArgs (ps : List Expr) : TArgs → Args
    | .nil => .nil
    | .cons e rest => .cons (inst ps e) (instArgs ps rest)
end

/-- the level a template offers whatever its parameters are (a hole offers the level it wraps to) -/
def tlevel : T → Nat
  | .hole _ lvl => lvl
  | .bin o _ _ => o.prec
  | .neg _ => 13
  | _ => 14

mutual
  /-- a template is written so that the parser reads it as it is meant, whatever the parameters -/
  def TOK : T → Bool
    | .hole _ lvl => decide (lvl ≤ 14)
    | .num s => numValue s == s
    | .text _ => true
    | .bool _ => true
    | .null => true
    | .neg e => TOK e && decide (13 ≤ tlevel e)
    | .bin o l r => TOK l && TOK r && decide (o.prec ≤ tlevel l) && decide (o.prec + 1 ≤ tlevel r)
    | .call n as => (lowerName n == n) && TOKArgs as
  def TOKArgs : TArgs → Bool
    | .nil => true
    | .cons e rest => TOK e && TOKArgs rest
end

/-! ### parameter migrators -/

inductive PM where
  | asIs
  | decr
  | bySpaces
deriving DecidableEq, Repr

def isDig (c : Char) : Bool := decide ('0' ≤ c) && decide (c ≤ '9')

def digitsVal (s : List Char) : Nat := s.foldl (fun acc c => acc * 10 + (c.toNat - '0'.toNat)) 0

/-- `strconv.Atoi` (64-bit): an optional sign, at least one digit, nothing else, within `int64` -/
def atoi (s : List Char) : Option Int :=
  let (neg, ds) := match s with
    | '-' :: r => (true, r)
    | '+' :: r => (false, r)
    | r => (false, r)
  if ds = [] ∨ !ds.all isDig then none
  else
    let n := digitsVal ds
    if neg then (if n ≤ 9223372036854775808 then some (-(n : Int)) else none)
    else (if n ≤ 9223372036854775807 then some (n : Int) else none)

/-- `strconv.Itoa` as the parser reads it: `-1` is the negation of `1` -/
def itoaE (n : Int) : Expr :=
  if n < 0 then .neg (.num (numValue (Nat.toDigits 10 n.natAbs)))
  else .num (numValue (Nat.toDigits 10 n.toNat))

/-- `paramDecremented`: a literal position is decremented now (a negative one counts from the end and
stays), anything else becomes `… - 1` -/
def decr (e : Expr) : Expr :=
  match atoi (render e) with
  | some n => if n < 0 then e else itoaE (n - 1)
  | none => .bin .sub (wrapTo 10 e) (.num ['1'])

/-- `paramBySpaces` -/
def bySpaces (e : Expr) : Expr :=
  if lowerName (render e) = "true".toList then .text [' ', '\t'] else .null

def applyPM : PM → Expr → Expr
  | .asIs, e => e
  | .decr, e => decr e
  | .bySpaces, e => bySpaces e

def zipPM : List PM → List Expr → List Expr
  | pm :: pms, e :: es => applyPM pm e :: zipPM pms es
  | _, _ => []

/-! ### call migrators -/

inductive Mig where
  /-- `asIs`, `asRename`, and functions the table does not know: `name(params…)` -/
  | call (name : List Char)
  /-- `asJoin(delimiter, level)` -/
  | join (o : BinOp)
  /-- `asTemplate` / `asOperatorTemplate`; `arity` parameters are taken -/
  | tmpl (t : T) (arity : Nat)
  /-- `asParamMigratorsWithDefaults`: positions from `minArgs` on have number-literal defaults -/
  | params (name : List Char) (pms : List PM) (minArgs : Nat) (defaults : List (List Char))

def toArgs : List Expr → Args
  | [] => .nil
  | e :: rest => .cons e (toArgs rest)

def joinRest (o : BinOp) (acc : Expr) : List Expr → Expr
  | [] => acc
  | q :: rest => joinRest o (.bin o acc (wrapTo (o.prec + 1) q)) rest

def applyMig : Mig → List Expr → Expr
  | .call n, ps => .call (.ref n) (toArgs ps)
  | .join _, [] => .null      -- excluded by `MigOK` (Go returns an empty text)
  | .join o, p :: rest => joinRest o (wrapTo o.prec p) rest
  | .tmpl t _, ps => inst ps t
  | .params n pms minArgs defaults, ps =>
    .call (.ref n) (toArgs (zipPM pms (ps ++ (defaults.drop (ps.length - minArgs)).map Expr.num)))

/-- what the Go code requires of a call (it returns an error, or garbage, otherwise) plus the
well-formedness of the table entry itself -/
def MigOK : Mig → Nat → Bool
  | .call n, _ => lowerName n == n
  | .join _, k => decide (1 ≤ k)
  | .tmpl t arity, k => TOK t && decide (k = arity)
  | .params n pms minArgs defaults, k =>
    (lowerName n == n) && decide (minArgs ≤ k) && decide (k ≤ pms.length) &&
      decide (minArgs + defaults.length ≤ pms.length) && defaults.all (fun d => numValue d == d)

/-! ### `+` and `-` -/

inductive Kind where
  | datetimeNumber
  | dateNumber (formatted : Bool)      -- `format_date(…)` around it unless raw dates are asked for
  | datetimeTime
  | replaceTime                        -- only for `+`; with `-` the fallback applies
  | fallback
deriving DecidableEq, Repr

def fnCall (name : String) (args : List Expr) : Expr := .call (.ref name.toList) (toArgs args)

def asMinutes (r : Expr) : Expr :=
  .bin .add (.bin .mul (fnCall "format_time" [r, .text ['t', 't']]) (.num ['6', '0'])) (fnCall "format_time" [r, .text ['m']])

def legacyAdd (minus : Bool) (l r : Expr) : Expr :=
  if minus then fnCall "legacy_add" [l, .neg (wrapTo 13 r)] else fnCall "legacy_add" [l, r]

def daysAdd (minus : Bool) (l r : Expr) : Expr :=
  if minus then fnCall "datetime_add" [l, .neg (wrapTo 13 r), .text ['D']] else fnCall "datetime_add" [l, r, .text ['D']]

def arithE : Kind → Bool → Expr → Expr → Expr
  | .datetimeNumber, minus, l, r => daysAdd minus l r
  | .dateNumber false, minus, l, r => daysAdd minus l r
  | .dateNumber true, minus, l, r => fnCall "format_date" [daysAdd minus l r]
  | .datetimeTime, false, l, r => fnCall "datetime_add" [l, asMinutes r, .text ['m']]
  | .datetimeTime, true, l, r => fnCall "datetime_add" [l, .neg (.paren (asMinutes r)), .text ['m']]
  | .replaceTime, false, l, r => fnCall "replace_time" [l, r]
  | .replaceTime, true, l, r => legacyAdd true l r
  | .fallback, minus, l, r => legacyAdd minus l r

/-! ### the legacy language and its migration -/

mutual
  inductive LF where
    | path (root : List Char) (lookups : List (List Char))   -- a context reference, already mapped
    | num (s : List Char)
    | str (v : List Char)                                    -- the value the new parser reads
    | bool (b : Bool)
    | neg (e : LF)
    | paren (e : LF)
    | bin (o : BinOp) (l r : LF)          -- operators that migrate to themselves; `+`/`-` of two numbers
    | arith (k : Kind) (minus : Bool) (l r : LF)
    | fn (m : Mig) (args : LFArgs)
  inductive LFArgs where
    | nil
    | cons (e : LF) (rest : LFArgs)
end

def mkPath (c : Expr) : List (List Char) → Expr
  | [] => c
  | l :: rest => mkPath (.dot c l) rest

def LFArgs.length : LFArgs → Nat
  | .nil => 0
  | .cons _ rest => rest.length + 1

mutual
  def migF : LF → Expr
    | .path r ls => mkPath (.ref r) ls
    | .num s => .num s
    | .str v => .text v
    | .bool b => .bool b
    | .neg e => .neg (wrapTo 13 (migF e))
    | .paren e => .paren (migF e)
    | .bin o l r => .bin o (wrapTo o.prec (migF l)) (wrapTo (o.prec + 1) (migF r))
    | .arith k minus l r => arithE k minus (migF l) (migF r)
    | .fn m args => applyMig m (migArgs args)
  def migArgs : LFArgs → List Expr
    | .nil => []
    | .cons e rest => migF e :: migArgs rest
end

mutual
  /-- names as the mapping produces them (lower case), numbers as they render, calls the Go code
  accepts -/
  def LWF : LF → Prop
    | .path r _ => lowerName r = r
    | .num s => numValue s = s
    | .str _ => True
    | .bool _ => True
    | .neg e => LWF e
    | .paren e => LWF e
    | .bin _ l r => LWF l ∧ LWF r
    | .arith _ _ l r => LWF l ∧ LWF r
    | .fn m args => MigOK m args.length = true ∧ LWFArgs args
  def LWFArgs : LFArgs → Prop
    | .nil => True
    | .cons e rest => LWF e ∧ LWFArgs rest
end

/-! ### what the legacy expression denotes

The same construction with no parentheses at all (they do not matter to a tree): every operator and
every call has the operands it had in the legacy expression, in the order the table prescribes. -/

mutual
  def strip : Expr → Expr
    | .paren e => strip e
    | .dot c l => .dot (strip c) l
    | .idx c e => .idx (strip c) (strip e)
    | .call f ps => .call (strip f) (stripArgs ps)
    | .lam args b => .lam args (strip b)
    | .bin o l r => .bin o (strip l) (strip r)
    | .neg e => .neg (strip e)
    | e => e
  def stripArgs : Args → Args
    | .nil => .nil
    | .cons e rest => .cons (strip e) (stripArgs rest)
end

mutual
  def instS (ps : List Expr) : T → Expr
    | .hole i _ => getP ps i
    | .num s => .num s
    | .text v => .text v
    | .bool b => .bool b
    | .null => .null
    | .neg e => .neg (instS ps e)
    | .bin o l r => .bin o (instS ps l) (instS ps r)
    | .call n as => .call (.ref n) (instSArgs ps as)
  def instSArgs (ps : List Expr) : TArgs → Args
    | .nil => .nil
    | .cons e rest => .cons (instS ps e) (instSArgs ps rest)
end

def semJoinRest (o : BinOp) (acc : Expr) : List Expr → Expr
  | [] => acc
  | q :: rest => semJoinRest o (.bin o acc q) rest

def asMinutesS (r : Expr) : Expr :=
  .bin .add (.bin .mul (fnCall "format_time" [r, .text ['t', 't']]) (.num ['6', '0'])) (fnCall "format_time" [r, .text ['m']])

def legacyAddS (minus : Bool) (l r : Expr) : Expr :=
  if minus then fnCall "legacy_add" [l, .neg r] else fnCall "legacy_add" [l, r]

def daysAddS (minus : Bool) (l r : Expr) : Expr :=
  if minus then fnCall "datetime_add" [l, .neg r, .text ['D']] else fnCall "datetime_add" [l, r, .text ['D']]

def arithS : Kind → Bool → Expr → Expr → Expr
  | .datetimeNumber, minus, l, r => daysAddS minus l r
  | .dateNumber false, minus, l, r => daysAddS minus l r
  | .dateNumber true, minus, l, r => fnCall "format_date" [daysAddS minus l r]
  | .datetimeTime, false, l, r => fnCall "datetime_add" [l, asMinutesS r, .text ['m']]
  | .datetimeTime, true, l, r => fnCall "datetime_add" [l, .neg (asMinutesS r), .text ['m']]
  | .replaceTime, false, l, r => fnCall "replace_time" [l, r]
  | .replaceTime, true, l, r => legacyAddS true l r
  | .fallback, minus, l, r => legacyAddS minus l r

/-- the per-parameter migrators on the denoted side: a parameter kept as it is denotes what it
denoted; a decremented or `by_spaces` parameter is whatever the migrator made of the parameter's
text (`decr` folds literals and otherwise writes `… - 1`), parentheses aside -/
def zipPMS : List PM → List Expr → List Expr → List Expr
  | pm :: pms, m :: ms, s :: ss =>
    (match pm with
      | .asIs => s
      | .decr => strip (decr m)
      | .bySpaces => bySpaces m) :: zipPMS pms ms ss
  | _, _, _ => []

def applyMigS : Mig → List Expr → List Expr → Expr
  | .call n, _, ss => .call (.ref n) (toArgs ss)
  | .join _, _, [] => .null
  | .join o, _, s :: rest => semJoinRest o s rest
  | .tmpl t _, _, ss => instS ss t
  | .params n pms minArgs defaults, ms, ss =>
    .call (.ref n) (toArgs (zipPMS pms (ms ++ (defaults.drop (ms.length - minArgs)).map Expr.num)
      (ss ++ (defaults.drop (ms.length - minArgs)).map Expr.num)))

mutual
  def semF : LF → Expr
    | .path r ls => mkPath (.ref r) ls
    | .num s => .num s
    | .str v => .text v
    | .bool b => .bool b
    | .neg e => .neg (semF e)
    | .paren e => semF e
    | .bin o l r => .bin o (semF l) (semF r)
    | .arith k minus l r => arithS k minus (semF l) (semF r)
    | .fn m args => applyMigS m (migArgs args) (semArgs args)
  def semArgs : LFArgs → List Expr
    | .nil => []
    | .cons e rest => semF e :: semArgs rest
end

end GoflowModel.LegacyFull
