import GoflowModel.Excellent.LegacyFull
/-
The migration table of `flows/definition/legacy/expressions/functions.go` (`callMigrators`) in the
terms of the model, and its description back in the terms of the source (`describe`), which
Props/C17 compares with the table regenerated from the source on every run.
-/
namespace GoflowModel.LegacyFull
open GoflowModel.Expr

def mkTArgs : List T → TArgs
  | [] => .nil
  | e :: rest => .cons e (mkTArgs rest)

private def h (i lvl : Nat) : T := .hole i lvl
private def c (name : String) (args : List T) : T := .call name.toList (mkTArgs args)
private def s (v : String) : T := .text v.toList
private def n (v : String) : T := .num v.toList
private def keep (name : String) : Mig := .call name.toList

structure Entry where
  name : String
  mig : Mig
  /-- the template is written with explicit argument indexes (`%[2]s`) -/
  indexed : Bool := false

/-- one entry per legacy function, sorted by name -/
def table : List Entry := [
  ⟨"abs", keep "abs", false⟩,
  ⟨"and", keep "and", false⟩,
  ⟨"average", keep "mean", false⟩,
  ⟨"char", keep "char", false⟩,
  ⟨"clean", keep "clean", false⟩,
  ⟨"code", keep "code", false⟩,
  ⟨"concatenate", .join .amp, false⟩,
  ⟨"date", keep "date_from_parts", false⟩,
  ⟨"datedif", keep "datetime_diff", false⟩,
  ⟨"datevalue", keep "date", false⟩,
  ⟨"day", .tmpl (c "format_date" [h 0 0, s "D"]) 1, false⟩,
  ⟨"days", .tmpl (c "datetime_diff" [h 1 0, h 0 0, s "D"]) 2, true⟩,
  ⟨"edate", .tmpl (c "datetime_add" [h 0 0, h 1 0, s "M"]) 2, false⟩,
  ⟨"epoch", keep "epoch", false⟩,
  ⟨"exp", .tmpl (.bin .exp (n "2.718281828459045") (h 0 13)) 1, false⟩,
  ⟨"false", .tmpl (.bool false) 0, false⟩,
  ⟨"field", .params "field".toList [.asIs, .decr, .asIs] 0 [], false⟩,
  ⟨"first_word", .tmpl (c "word" [h 0 0, n "0"]) 1, false⟩,
  ⟨"fixed", .params "format_number".toList [.asIs, .asIs, .asIs] 1 ["2".toList], false⟩,
  ⟨"format_date", keep "format_datetime", false⟩,
  ⟨"format_location", keep "format_location", false⟩,
  ⟨"hour", .tmpl (c "format_datetime" [h 0 0, s "tt"]) 1, false⟩,
  ⟨"if", keep "if", false⟩,
  ⟨"int", keep "round_down", false⟩,
  ⟨"left", .tmpl (c "text_slice" [h 0 0, n "0", h 1 0]) 2, true⟩,
  ⟨"len", keep "text_length", false⟩,
  ⟨"lower", keep "lower", false⟩,
  ⟨"max", keep "max", false⟩,
  ⟨"min", keep "min", false⟩,
  ⟨"minute", .tmpl (c "format_datetime" [h 0 0, s "m"]) 1, false⟩,
  ⟨"mod", keep "mod", false⟩,
  ⟨"month", .tmpl (c "format_date" [h 0 0, s "M"]) 1, false⟩,
  ⟨"now", keep "now", false⟩,
  ⟨"or", keep "or", false⟩,
  ⟨"percent", keep "percent", false⟩,
  ⟨"power", .tmpl (.bin .exp (h 0 12) (h 1 13)) 2, false⟩,
  ⟨"proper", keep "title", false⟩,
  ⟨"rand", keep "rand", false⟩,
  ⟨"randbetween", keep "rand_between", false⟩,
  ⟨"read_digits", keep "read_chars", false⟩,
  ⟨"regex_group", keep "regex_match", false⟩,
  ⟨"remove_first_word", keep "remove_first_word", false⟩,
  ⟨"rept", keep "repeat", false⟩,
  ⟨"right", .tmpl (c "text_slice" [h 0 0, .neg (h 1 13)]) 2, true⟩,
  ⟨"round", keep "round", false⟩,
  ⟨"rounddown", keep "round_down", false⟩,
  ⟨"roundup", keep "round_up", false⟩,
  ⟨"second", .tmpl (c "format_datetime" [h 0 0, s "s"]) 1, false⟩,
  ⟨"substitute", keep "replace", false⟩,
  ⟨"sum", .join .add, false⟩,
  ⟨"time", .tmpl (c "time_from_parts" [h 0 0, h 1 0, h 2 0]) 3, false⟩,
  ⟨"timevalue", .tmpl (c "time" [h 0 0]) 1, false⟩,
  ⟨"today", keep "today", false⟩,
  ⟨"true", .tmpl (.bool true) 0, false⟩,
  ⟨"trunc", keep "round_down", false⟩,
  ⟨"unichar", keep "char", false⟩,
  ⟨"unicode", keep "code", false⟩,
  ⟨"upper", keep "upper", false⟩,
  ⟨"weekday", .tmpl (.bin .add (c "weekday" [h 0 0]) (n "1")) 1, false⟩,
  ⟨"word", .params "word".toList [.asIs, .decr, .bySpaces] 0 [], false⟩,
  ⟨"word_count", .params "word_count".toList [.asIs, .bySpaces] 0 [], false⟩,
  ⟨"word_slice", .params "word_slice".toList [.asIs, .decr, .decr, .bySpaces] 0 [], false⟩,
  ⟨"year", .tmpl (c "format_date" [h 0 0, s "YYYY"]) 1, false⟩
]

/-- the migrator of a legacy function (lower-cased name): the table's, or the call kept as it is -/
def migOf (name : String) : Mig :=
  match table.find? (fun e => e.name == name) with
  | some e => e.mig
  | none => .call name.toList

/-! ### back to the terms of the source -/

def digitChar (d : Nat) : Char := Char.ofNat ('0'.toNat + d)

mutual
  /-- the template as `fmt.Sprintf` text -/
  def tmplText (indexed : Bool) : T → List Char
    | .hole i _ => if indexed then ['%', '[', digitChar (i + 1), ']', 's'] else ['%', 's']
    | .num v => v
    | .text v => '"' :: v ++ ['"']
    | .bool true => "true".toList
    | .bool false => "false".toList
    | .null => "NULL".toList
    | .neg e => '-' :: tmplText indexed e
    | .bin o l r => tmplText indexed l ++ ' ' :: o.text ++ ' ' :: tmplText indexed r
    | .call f as => f ++ '(' :: tmplArgsText indexed as ++ [')']
  def tmplArgsText (indexed : Bool) : TArgs → List Char
    | .nil => []
    | .cons e .nil => tmplText indexed e
    | .cons e rest => tmplText indexed e ++ ',' :: ' ' :: tmplArgsText indexed rest
end

mutual
  /-- the holes from left to right: (parameter, level) -/
  def holes : T → List (Nat × Nat)
    | .hole i lvl => [(i, lvl)]
    | .neg e => holes e
    | .bin _ l r => holes l ++ holes r
    | .call _ as => holesArgs as
    | _ => []
  def holesArgs : TArgs → List (Nat × Nat)
    | .nil => []
    | .cons e rest => holes e ++ holesArgs rest
end

def pmName : PM → String
  | .asIs => "paramAsIs"
  | .decr => "paramDecremented"
  | .bySpaces => "paramBySpaces"

/-- the level given for parameter `i` (0: substituted as it is) -/
def levelOf (hs : List (Nat × Nat)) (i : Nat) : Nat :=
  match hs.find? (fun p => p.1 == i) with
  | some p => p.2
  | none => 0

/-- (constructor, string arguments, integer arguments) as `gfextract` reads them from functions.go;
`invalid` when the entry could not have been written that way (a template without explicit indexes
whose parameters are not taken in order, a parameter used at two different levels) -/
def describe (e : Entry) : List Char × List (List Char) × List Nat :=
  match e.mig with
  | .call nm => if nm = e.name.toList then ("asIs".toList, [], []) else ("asRename".toList, [nm], [])
  | .join o => ("asJoin".toList, [' ' :: o.text ++ [' ']], [o.prec])
  | .tmpl t arity =>
    let hs := holes t
    let inOrder := e.indexed || hs.map (·.1) == List.range arity
    let consistent := hs.all (fun p => p.2 == levelOf hs p.1 && decide (p.1 < arity))
    if !(inOrder && consistent) then ("invalid".toList, [], [])
    else if hs.all (fun p => p.2 == 0) then ("asTemplate".toList, [tmplText e.indexed t], [])
    else ("asOperatorTemplate".toList, [tmplText e.indexed t], (List.range arity).map (levelOf hs))
  | .params nm pms minArgs defaults =>
    if minArgs = 0 ∧ defaults = [] then ("asParamMigrators".toList, nm :: pms.map (fun p => (pmName p).toList), [])
    else ("asParamMigratorsWithDefaults".toList,
      nm :: (List.replicate minArgs [] ++ defaults ++ ["|".toList] ++ pms.map (fun p => (pmName p).toList)), [])

/-- every entry is well formed for the number of parameters it is written for -/
def entryOK (e : Entry) : Bool :=
  match e.mig with
  | .call _ => MigOK e.mig 0
  | .join _ => MigOK e.mig 1
  | .tmpl _ arity => MigOK e.mig arity
  | .params _ _ minArgs _ => MigOK e.mig minArgs

end GoflowModel.LegacyFull
