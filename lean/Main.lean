import GoflowModel.Driver.C12
import GoflowModel.Driver.CQL
import GoflowModel.Driver.Engine
import GoflowModel.Driver.Router
import GoflowModel.Driver.Localize
import GoflowModel.Driver.Inspect
import GoflowModel.Driver.Contact
import GoflowModel.Driver.Values
import GoflowModel.Driver.Expr
import GoflowModel.Driver.Legacy
import GoflowModel.Driver.LegacyFull
import GoflowModel.Driver.Json
open GoflowModel

def handlers : List (List String → Option String) := [Driver.C12.handle, Driver.CQL.handle, Driver.Engine.handle, Driver.Router.handle, Driver.Localize.handle, Driver.Inspect.handle, Driver.Contact.handle, Driver.Values.handle, Driver.Expr.handle, Driver.Legacy.handle, Driver.LegacyFull.handle, Driver.Json.handle]

def step (line : String) : String :=
  let toks := (line.trimAscii.toString.splitOn " ").filter (· ≠ "")
  match handlers.findSome? (fun h => h toks) with
  | some out => out
  | none => "bad-op"

partial def loop (h : IO.FS.Stream) (out : IO.FS.Stream) : IO Unit := do
  let line ← h.getLine
  if line.isEmpty then return ()
  out.putStrLn (step line)
  loop h out

def main : IO Unit := do
  let out ← IO.getStdout
  loop (← IO.getStdin) out
  out.flush
